"""Expression families for C02.  Each family is a small grammar enumerated exhaustively up to a
size bound (size = number of productions used, leaves included), or an explicit finite product.
Free variables of every expression: a b (def, 1 and 10), x y (var, 100 and 1000).  stdlib only."""
import gen
import model
from model import read, read_all, T, Sym, Kw, Tup

ALL_CTX = [c[0] for c in gen.CONTEXTS]
NEAR_CTX = [c for c in ALL_CTX if not c.startswith("far")]
FAR_CTX = [c for c in ALL_CTX if c.startswith("far")]
# a representative subset for families whose expressions are big (cost) or numerous
CORE_CTX = ["top-def", "top-tail", "fn-def", "fn-tail", "fn-drop", "closure", "while-iife", "set-x", "far", "far-temps", "far-tail"]


class Family(object):
    """quick/thorough: size bounds of the grammar (thorough may continue to `extra` if time permits)"""

    def __init__(self, name, rules=None, start="e", quick=3, thorough=4, extra=None, exprs=None, ctx_quick=None,
                 ctx_thorough=None, use_model=True, doc="", keep_far=None):
        self.keep_far = keep_far
        self.name = name
        self.rules = rules
        self.start = start
        self.q, self.t = quick, thorough
        self.x = extra if extra is not None else thorough
        self._exprs = exprs
        self.ctx_q = ctx_quick or ALL_CTX
        self.ctx_t = ctx_thorough or ALL_CTX
        self.use_model = use_model
        self.doc = doc
        self._g = gen.Grammar(rules) if rules else None

    def levels(self, tier):
        if self._exprs is not None:
            return ["product"]
        return list(range(1, (self.q if tier == "quick" else self.x) + 1))

    def rank(self, lv):
        """<= 0: within the quick bound (always run); 1: within the thorough bound; 2: beyond"""
        if self._exprs is not None:
            return 0
        if lv <= self.q:
            return 0
        return 1 if lv <= self.t else 2

    def describe(self, lv):
        if self._exprs is not None:
            return "explicit product"
        return "all trees of size <= %d" % lv

    def count(self, tier, lv):
        if self._exprs is not None:
            return len(self._exprs(tier))
        return self._g.count_exact(self.start, lv)

    def level_exprs(self, tier, lv):
        if self._exprs is not None:
            return [gen.fresh(e) for e in self._exprs(tier)]
        return [gen.fresh(e) for e in self._g.gen(self.start, lv)]

    def exprs(self, tier):
        out = []
        for lv in self.levels(tier):
            if self.rank(lv) <= 1:
                out.extend(self.level_exprs(tier, lv))
        return out

    def contexts(self, tier):
        return self.ctx_q if tier == "quick" else self.ctx_t


FAMILIES = {}
ORDER = []


def fam(f):
    FAMILIES[f.name] = f
    ORDER.append(f.name)
    return f


def product_family(name, build, **kw):
    """explicit finite product: build(tier) -> list of source texts"""
    def ex(tier):
        seen = set()
        out = []
        for t in build(tier):
            if t not in seen:
                seen.add(t)
                out.append(read(t))
        return out
    return fam(Family(name, exprs=ex, **kw))


# ---- arith: inlined variadic operators, assignment, sequencing over the context variables
fam(Family("arith", {
    "e": ["1", "a", "b", "x", "y",
          "(+ $e $e)", "(+ $e $e $e)", "(- $e $e $e)", "(* $e $e)", "(< $e $e)", "(< $e $e $e)",
          "(set x $e)", "(set y $e)", "(t $e)", "(do $e $e)", "(if $e $e $e)"],
}, quick=5, thorough=6, extra=6, ctx_thorough=ALL_CTX, doc="inlined variadic operators, set, do, if, tracer"))


# ---- setop: (set v (op l l [l [l]])) completely, the shape of the known defect D2
def _setop(tier):
    leaves = ["1", "a", "x", "y"]
    ops = ["+", "-", "*", "<", ">", "<=", ">=", "=", "not="]
    out = []
    for v in ("x", "y"):
        for op in ops:
            for n in (2, 3, 4) if tier == "thorough" else (2, 3):
                idx = [0] * n
                while True:
                    out.append("(do (set %s (%s %s)) %s)" % (v, op, " ".join(leaves[i] for i in idx), v))
                    k = n - 1
                    while k >= 0 and idx[k] == len(leaves) - 1:
                        idx[k] = 0
                        k -= 1
                    if k < 0:
                        break
                    idx[k] += 1
    return out


product_family("setop", _setop, ctx_thorough=ALL_CTX, doc="set of a variadic operator form")


# ---- control: conditionals and short-circuit macros over constants (compile-time folding) and tracers
fam(Family("control", {
    "e": ["nil", "false", "true", "0", ":k", "a", "x", "(t 1)", "(t 2)", "(t nil)", "(t false)",
          "(if $e $e $e)", "(if $e $e)", "(and $e $e)", "(or $e $e)", "(and $e $e $e)", "(or $e $e $e)",
          "(when $e $e)", "(unless $e $e)", "(cond $e $e $e)", "(cond $e $e $e $e)",
          "(case $e 0 $e $e)", "(case $e nil $e :k $e)", "(case $e nil :n :k :kk 0 :z :d)", "(not $e)", "(do $e $e)", "(if-not $e $e $e)",
          "(set x $e)", "(= nil $e)", "(not= nil $e)", "(if (= nil $e) $e $e)", "(if (not= $e nil) $e $e)",
          "(if (= nil nil) $e $e)", "(if (= nil :k) $e $e)", "(if (not= nil nil) $e $e)", "(if (not= 0 nil) $e $e)",
          "(if (= false nil) $e $e)", "(if nil $e $e)", "(if 0 $e $e)", "(if (= nil a) $e $e)", "(if (not= nil x) $e $e)"],
}, quick=3, thorough=4, extra=5, ctx_thorough=ALL_CTX))


# ---- loops: while, break, nested loops, loops rewritten as functions, per-iteration capture
_S = ["(t i)", "(set acc (+ acc i))", "(break)", "(break (t 9))", "(set x (+ x i))",
      "(if $c $s)", "(if $c $s $s)", "(when $c $s $s)", "(do $s $s)",
      "(do (var j 0) (while (< j 2) (++ j) $u))", "(do (var j 0) (while (< j 2) (++ j) $u $u))",
      "(each v [5 6] $w)", "(array/push fs (fn [] (tuple i acc)))", "(do (def q i) (array/push fs (fn [] q)))"]
fam(Family("loops", {
    "e": ["(do (var i 0) (var acc 0) (def fs @[]) (while (< i 3) (++ i) $s) (tuple i acc (seq [f :in fs] (f))))",
          "(do (var i 0) (var acc 0) (def fs @[]) (while (< i 3) (++ i) $s $s) (tuple i acc (seq [f :in fs] (f))))",
          "(do (var i 0) (var acc 0) (def fs @[]) (while true (++ i) (if (> i 3) (break)) $s) (tuple i acc (length fs)))",
          "(do (var i 0) (var acc 0) (def fs @[]) (while (not= nil (if (< i 3) i)) (++ i) $s) (tuple i acc (length fs)))"],
    "s": _S,
    "u": ["(t j)", "(set acc (+ acc (* 10 j)))", "(break)", "(if $d $u)", "(if $d $u $u)", "(if (= j 1) (break))",
          "(array/push fs (fn [] j))", "(t (tuple i j))"],
    "w": ["(t v)", "(set acc (+ acc v))", "(break)", "(if (= v 5) (break))", "(array/push fs (fn [] v))", "(if $c $w)"],
    "c": ["(= i 1)", "(= i 2)", "(> i 1)", "true", "nil", "(t (< i 2))"],
    "d": ["(= j 1)", "(= i j)", "(> i 1)"],
}, quick=5, thorough=6, extra=7, ctx_thorough=ALL_CTX))


# ---- closures: capture of mutable variables, sharing, capture after/before mutation, nesting
def _clos_rules():
    base = ["1", "a", "x", "(set x $E)", "(+ $E $E)", "(t $E)", "(do $E $E)", "((fn [] $E))",
            "(do (def f (fn [] $E)) (f))", "(do (def f (fn [] $E)) (set x 5) (f))",
            "(do (def f (fn [] (set x (+ x 1)))) (f) (f) $E)"]
    r = {}
    r["e"] = [p.replace("$E", "$e") for p in base] + [
        "((fn [p] $e1) $e)", "(let [p $e] $e1)", "(do (var c $e) (def f (fn [] (set c (+ c 1)))) $ec)",
        "(do (var c 0) (def f (fn [] (fn [] (set c (+ c 1))))) (def h (f)) (h) (tuple (h) c))",
        "(do (def mk (fn [n] (fn [] (set x (+ x n))))) (def h1 (mk 1)) (def h2 (mk 10)) (h1) (h2) $e)"]
    r["e1"] = [p.replace("$E", "$e1") for p in base] + [
        "p", "((fn [q] (tuple p q)) $e1)", "(do (def h (fn [] p)) (h))", "(let [p (+ p 1)] $e1)",
        "(do (var p p) (def h (fn [] (set p (+ p 1)))) (h) p)"]
    r["ec"] = ["c", "(f)", "(do $ec $ec)", "(+ $ec $ec)", "(tuple $ec $ec)", "(t $ec)", "((fn [] c))", "(set c $ec)",
               "(do (def c2 c) (f) (tuple c2 c))"]
    return r


fam(Family("closures", _clos_rules(), quick=4, thorough=5, extra=6, ctx_thorough=ALL_CTX))


# ---- params: parameter lists x argument lists x call styles
_PARAMS = ["[p]", "[p q]", "[p &opt q]", "[&opt p q]", "[p & q]", "[& p]", "[p &opt q & u]", "[p &keys q]", "[&keys p]",
           "[p &named q u]", "[&named p]", "[[p q]]", "[p [q & u]]", "[{:k p} q]", "[p &]", "[p &opt [q u]]", "[]",
           "[p q u v]", "[p &keys {:k q :j u}]"]
_ARGS = ["", "1", "1 2", "1 2 3", "1 2 3 4", "1 2 3 4 5", ":k 5", "1 :k 5", "1 :q 5 :u 6", "1 :u 6", ":p 1", "[1 2]", "[1 2 3] 4",
         "{:k 1} 2", "1 [2 3 4]", "nil", "nil nil", ";[1 2]", "1 ;[2 3]", "(t 1) (t 2)", "1 :k", "1 :j 2 :k 3", "a x"]


def _names(p):
    out = []
    for tok in p.replace("@", " ").replace("(", " ").replace(")", " ").replace("[", " ").replace("]", " ").replace("{", " ").replace("}", " ").split():
        if tok[0] not in "&:" and tok not in out:
            out.append(tok)
    return out


def _params(tier):
    out = []
    for p in _PARAMS:
        body = "[" + " ".join(_names(p)) + "]"
        for a in _ARGS:
            out.append("((fn %s %s) %s)" % (p, body, a))
            out.append("(do (defn f %s %s) (f %s))" % (p, body, a))
            out.append("(do (defn f %s %s) (defn h [] (f %s)) (h))" % (p, body, a))
            if ";" not in a:
                out.append("(do (defn f %s %s) (apply f [%s]))" % (p, body, a))
            out.append("(do (defn f %s (t %s)) (tuple (f %s) 0))" % (p, body, a))
    return out


product_family("params", _params, ctx_thorough=ALL_CTX)


# ---- destructure: patterns x values x binding forms
_PATS = ["[p q]", "[p & q]", "[p [q u]]", "[[p] q]", "{:k p}", "{:k p :j q}", "@[p q]", "[p {:k q}]", "{:k [p q]}",
         "[p q & u]", "[& p]", "(p q)", "[p nil q]"]
_VALS = ["[1 2 3]", "[1]", "[]", "@[1 [2 3]]", "{:k 1}", "{:k [4 5] :j 2}", "nil", "5", "\"ab\"", "[1 {:k 2}]",
         "[[7] 8]", "@{:k 9}", "[nil 2]", ":kw", "[a x]", "(tuple (t 1) (t 2))"]


def _destr(tier):
    out = []
    for p in _PATS:
        if p == "[p nil q]":
            continue
        n = "[" + " ".join(_names(p)) + "]"
        for v in _VALS:
            out.append("(do (def %s %s) %s)" % (p, v, n))
            out.append("(do (var %s %s) (set p 0) %s)" % (p, v, n))
            out.append("(let [%s %s] %s)" % (p, v, n))
            out.append("((fn [%s] %s) %s)" % (p, n, v))
            out.append("(do (var w nil) (each %s [%s] (set w %s)) w)" % (p, v, n))
            out.append("(seq [%s :in [%s]] %s)" % (p, v, n))
            out.append("(if-let [%s %s] %s :no)" % (p, v, n))
            out.append("(try (error %s) ([%s] %s))" % (v, p, n))
            out.append("(tuple (def %s %s) %s)" % (p, v, n))
    return out


product_family("destructure", _destr, ctx_thorough=ALL_CTX)


# ---- quasi: quote, quasiquote, unquote, splice, nesting
fam(Family("quasi", {
    "e": ["(quasiquote $q)", "(quote $d)", "(tuple (quasiquote $q) (quote $d))"],
    "q": ["1", "sym", ":k", "(unquote a)", "(unquote (t x))", "(unquote (splice (tuple a b)))", "(unquote (splice []))",
          "(unquote (splice @[x]))", "($q $q)", "[$q $q]", "($q)", "@[$q $q]", "{:k $q}", "@{:j $q}", "(quasiquote $n)",
          "(unquote (set x (+ x 1)))", "(unquote (if $z 1 2))", "(splice $q)", "()"],
    "n": ["1", "sym", "(unquote $q)", "($n $n)", "(unquote (unquote a))", "[$n]"],
    "z": ["a", "nil", "(quasiquote $q)"],
    "d": ["1", "sym", "(a b)", "[a (t 1)]", "@[x]", "{:k v}", "()", "(quote a)", "(unquote a)", "(splice x)", "($d $d)", "[$d]"],
}, quick=4, thorough=5, extra=6, ctx_thorough=ALL_CTX))


# ---- macros: the core control macros
def _macro_rules():
    base = ["1", "a", "x", "nil", "(t 1)", "(t x)", "(set x $E)", "(+ $E $E)", "(tuple $E $E)", "(do $E $E)",
            "(let [p $E] $P)", "(let [p $E q (+ p 1)] (tuple p q))", "(if-let [p $E] $P $E)", "(when-let [p $E] $P)",
            "(if-let [p $E q $E] (tuple p q) :no)",
            "(do (each p [$E $E] (t p)) x)", "(do (each p @[1 2] $P) x)",
            "(do (for i 0 3 $I) x)", "(do (for i $E $E (t i)) x)", "(do (forv i 0 4 (t i) (++ i)) x)",
            "(do (loop [i :range [0 3]] $I) x)", "(do (loop [i :range [0 2] j :range [0 2]] (t (tuple i j))) x)",
            "(do (loop [i :range [0 6 2]] $I) x)", "(do (loop [i :down [3 0]] $I) x)", "(do (loop [i :range-to [1 3]] $I) x)",
            "(do (loop [i :down-to [2 0]] $I) x)", "(do (loop [i :range [0 4] :when (> i 1)] $I) x)",
            "(do (loop [i :range [0 4] :while (< i 2)] $I) x)", "(do (loop [i :range [0 4] :until (> i 1)] $I) x)",
            "(do (loop [i :range [0 2] :let [p (* i 10)]] $P) x)", "(do (loop [i :range [0 2] :before (t :b) :after (t :a)] $I) x)",
            "(do (loop [i :range [0 2] :repeat 2] $I) x)", "(do (loop [i :keys [7 8]] $I) x)", "(do (loop [i :pairs [7 8]] $I) x)",
            "(do (loop [i :in [7 8] :unless (= i 7)] $I) x)", "(do (var n 3) (loop [i :iterate (if (> n 0) (-- n))] $I) x)",
            "(seq [i :range [0 3]] $I)", "(seq [i :range [0 3] :when (> i 0)] $I)", "(seq [i :in [5 6]] $I)",
            "(seq [i :in [1 2] j :in [3 4]] (+ i j))", "(do (repeat 2 (t x)) x)",
            "(try $E ([err] (tuple :c err)))", "(defer (t :d) $E)", "(with [p $E (fn [z] (t z))] $P)",
            "(let [p $E] (default p (t 3)) p)", "(do (default a $E) a)", "(upscope (default b (t 3)) b)", "(++ x)", "(+= x $E)", "(-- x)", "(-= x $E $E)", "(*= x 2)",
            "(do (eachp p [7] (t p)) x)", "(do (eachk p [7 8] (t p)) x)", "(do (each p {:k 4} (t p)) x)",
            "(do (eachp p @{:k 4} (t p)) x)", "(do (each p \"ab\" (t p)) x)", "(do (each p nil (t p)) x)"]
    r = {}
    r["e"] = [p.replace("$E", "$e").replace("$P", "$e1").replace("$I", "$ei") for p in base]
    r["e1"] = ["p", "(t p)", "(tuple p x)", "(set x p)"] + [p.replace("$E", "$e").replace("$P", "$e1").replace("$I", "$ei") for p in base[:10]]
    r["ei"] = ["i", "(t i)", "(set x (+ x i))", "(if (= i 1) (break))", "(do (t i) (if (> i 0) (break)))", "(fn [] i)",
               "(when (= i 1) (t x))", "(do $ei $ei)"]
    return r


fam(Family("macros", _macro_rules(), quick=3, thorough=4, extra=4, ctx_thorough=ALL_CTX))


# ---- tailcalls: recursion, tail calls through every tail position, frame reuse
def _tail(tier):
    out = []
    args = ["p", "q", "(+ p q)", "(t p)", "7", "n"]
    for A in args:
        for B in args:
            for N in (0, 1, 2, 3):
                out.append("(do (defn f [p q n] (if (= n 0) (tuple p q) (f %s %s (- n 1)))) (f 1 2 %d))" % (A, B, N))
    for A in ["p", "(+ p 1)", "(* p 2)", "(t p)"]:
        for N in (0, 1, 3):
            out.append("(do (defn f [p n] (if (= n 0) p (+ 1 (f %s (- n 1))))) (f 1 %d))" % (A, N))
            out.append("((fn f [p n] (if (= n 0) p (f %s (- n 1)))) 1 %d)" % (A, N))
    wraps = ["(if (= n 0) acc $R)", "(cond (= n 0) acc $R)", "(do (t n) (if (= n 0) acc $R))", "(let [z 1] (if (= n 0) acc $R))",
             "(when (not= n 0) $R)", "(and (not= n 0) $R)", "(or (and (= n 0) acc) $R)", "(case n 0 acc $R)",
             "(if-not (= n 0) $R acc)", "(unless (= n 0) $R)", "(if-let [z (not= n 0)] $R acc)", "(upscope (if (= n 0) acc $R))",
             "(if (= n 0) acc (do (def m (- n 1)) (f m (+ acc n))))", "(try (if (= n 0) acc $R) ([e] e))",
             "(if (= n 0) (break acc) $R)", "(do (if (= n 0) (break acc)) $R)", "(while true (if (= n 0) (break acc)) (break $R))"]
    for w in wraps:
        for N in (0, 1, 3):
            out.append("(do (defn f [n acc] %s) (f %d 100))" % (w.replace("$R", "(f (- n 1) (+ acc n))"), N))
    out += [
        "(do (defn h [p q u v w] (tuple p q u v w)) (defn f [p] (h p 2 3 4 5)) (f 1))",
        "(do (defn h [p] (tuple p)) (defn f [p q u v w] (h w)) (f 1 2 3 4 5))",
        "(do (defn h [& r] r) (defn f [p q] (h q p q p)) (f 1 2))",
        "(do (defn h [p &opt q] (tuple p q)) (defn f [p q] (h q)) (f 1 2))",
        "(do (defn h [p &keys q] (tuple p q)) (defn f [p q] (h q :k p)) (f 1 2))",
        "(do (defn h [p q] (tuple p q)) (defn f [p q] (h q p)) (f 1 2))",
        "(do (defn h [p q] (tuple p q)) (defn f [p q] (def z (tuple p q)) (h q z)) (f 1 2))",
        "(do (defn h [p q] (tuple p q)) (defn f [p q] (apply h [q p])) (f 1 2))",
        "(do (defn h [p q] (tuple p q)) (defn f [p q] (apply h q [p])) (f 1 2))",
        "(do (defn f [p q] (f2 p)) (f 1 2))".replace("f2", "error"),
        "(do (defn f [p] (p)) (f (fn [] (f (fn [] 5)))))",
        "(do (defn f [n acc] (def c (fn [] n)) (array/push acc c) (if (= n 0) (seq [h :in acc] (h)) (f (- n 1) acc))) (f 3 @[]))",
        "(do (defn f [n acc] (var m n) (array/push acc (fn [] (++ m))) (if (= n 0) (seq [h :in acc] (h)) (f (- n 1) acc))) (f 2 @[]))",
        "(do (var ev nil) (defn od [n] (if (= n 0) false (ev (- n 1)))) (set ev (fn [n] (if (= n 0) true (od (- n 1))))) (tuple (ev 4) (ev 3) (od 1)))",
        "(do (defn f [p q] (if (> p 2) (tuple p q x) (do (set x (+ x p)) (f (+ p 1) x)))) (f 0 0))",
        "(do (defn f [p] (if (= p 0) (error :bottom) (f (- p 1)))) (f 3))",
        "(do (defn f [p] (if (= p 0) (error :bottom) (+ 1 (f (- p 1))))) (f 3))",
        "(do (defn f [p] (if (= p 0) (+ 1 :k) (f (- p 1)))) (try (f 2) ([e] :caught)))",
        "(do (defn f [p q] (tuple p q)) (f ;[1 2]))",
        "(do (defn f [p q] (tuple p q)) (defn h [z] (f ;z)) (h [1 2]))",
        "(do (defn f [p q] (tuple p q)) (defn h [z] (f 0 ;z)) (h [1]))",
        "(do (defn f [p q] (tuple p q)) (defn h [z] (f ;z)) (h [1 2 3]))",
        "((fn f [n] (if (= n 0) (f)  (f (- n 1)))) 1)",
        "((fn f [n] (if (> n 40) n (f (+ n 1)))) 0)",
    ]
    return out


product_family("tailcalls", _tail, ctx_thorough=ALL_CTX)


# ---- errors: raising forms at every position, caught and uncaught, attribution to line/column
fam(Family("errors", {
    "e": ["1", "a", "x", "(error :e1)", "(error x)", "(+ 1 :k)", "(nil)", "((fn [p] p))", "(in [1] 5)", "(error [a b])",
          "(+ $e $e)", "(tuple $e $e)", "(do $e $e)", "(if $e $e $e)", "(t $e)",
          "(try $e ([err] (tuple :c err)))", "(try $e ([err] $e))", "(defer (t :d) $e)", "((fn [] $e))", "(let [p $e] $e)",
          "(set x $e)", "(with [w 1 (fn [z] (t z))] $e)", "(edefer (t :ed) $e)", "(protect $e)", "[$e $e]",
          "(do (var i 0) (while (< i 2) (++ i) $e) i)", "(each p [1 2] $e)", "(and $e $e)", "(< $e $e)", "(- $e)",
          "((fn [p q] p) $e)", "(do (def [p q] $e) (tuple p q))", "(in $e 0)", "(length $e)", "(++ y)", "(set y :k)"],
}, quick=3, thorough=4, extra=4, ctx_thorough=ALL_CTX))


# ---- scopes: shadowing, upscope, redefinition, closures over shadowed names
fam(Family("scopes", {
    "e": ["a", "x", "1", "(do (def a $e) $e)", "(do (var x $e) $e)", "(let [a $e] $e)", "(let [a $e a (+ a 1)] $e)",
          "(do (upscope (def p $e) (var q 2)) (set q (+ q p)) (tuple p q))", "((fn [a] $e) $e)", "((fn [y] $e) $e)",
          "(do (def y $e) $e)", "(set x $e)", "(+ $e $e)", "(t $e)", "(if $e (do (def a 5) $e) $e)",
          "((fn [] (def a 2) $e))", "(do (def f (fn [] a)) (def a 5) (tuple (f) a))",
          "(do (def p $e) (def f (fn [] p)) (def p $e) (tuple (f) p))", "((fn a [] 1))", "((fn a [a] a) 3)",
          "(do (var x 1) (def f (fn [] (set x (+ x 1)))) (f) x)", "(tuple x (do (var x 5) (set x (+ x 1))) x)",
          "(do (def a 3) (def a (+ a 1)) a)", "(if (def p $e) p :no)", "(do (if true (def a 9)) a)",
          "(upscope (def b $e) b)", "(while (def p (< x 103)) (set x (+ x 1)))"],
}, quick=3, thorough=4, extra=5, ctx_thorough=ALL_CTX))


# ---- data: constructors, splice, indexed access, put / set of a field, keywords and structures as functions
fam(Family("data", {
    "e": ["1", "a", "x", ":k", "nil", "[$e $e]", "@[$e $e]", "{:k $e}", "@{:k $e}", "(tuple $e ;$l)", "[;$l $e]", "@[;$l]",
          "(length $l)", "(get $l $e)", "(in $l $e)", "($l 0)", "(get $d :k)", "(get $d :k $e)", "($d :k)", "(put $m :k $e)",
          "(do (def tb @{}) (set (tb $e) $e) tb)", "(array/push @[] $e $e)", "(t $e)", "(set x $e)", "(tuple)", "(apply tuple $e $l)", "(tuple ;$l ;$l)", "{:k $e :j 2}", "(do (def ar @[1 2]) (set (ar $e) $e) ar)"],
    "l": ["[1 2]", "@[a x]", "[$e $e]", "(tuple $e)", "[]"],
    "d": ["{:k 1}", "@{:k a}", "{:j 2}", "nil", "{:k $e}"],
    "m": ["@{}", "@{:k 0}", "@[1 2]"],
}, quick=4, thorough=5, extra=5, ctx_thorough=ALL_CTX))


# ---- blockvalue: a block that binds a local and ends in a computed value, used as a NON-last operand (its result
# register has to stay reserved while the following operands are evaluated), in every context - in particular in
# parameterless functions and at top level, where the block's value lands in register 0
def _blockvalue(tier):
    blocks = ["(do (def p %s) (+ p 1))", "(let [p %s] (* p 2))", "(do (var q %s) (set q (+ q 1)) (+ q 10))",
              "(if true (do (def p 1) (+ p %s)))", "(do (def p %s) (def q (+ p 1)) (tuple p q))", "(do (def p %s) (string p \"-\"))"]
    vs = ["1", "a", "x", "(t 7)", "(t x)"]
    shapes = ["(tuple %s %s)", "(+ %s %s)", "(tuple %s %s %s)", "[%s %s]", "(string %s %s)", "(tuple %s (do (def r2 %s) (+ r2 100)))"]
    out = []
    for bt in blocks:
        for v in (vs if tier == "thorough" else vs[:4]):
            b = bt % v
            for w in (vs if tier == "thorough" else ["1", "(t 7)", "x"]):
                for sh in shapes:
                    n = sh.count("%s")
                    out.append(sh % ((b, w) if n == 2 else (b, w, b)))
    return out


product_family("blockvalue", _blockvalue, ctx_quick=ALL_CTX, ctx_thorough=ALL_CTX,
               doc="block with a local and a computed value as a non-last operand")


# ---- mixed: the most important productions of every family together
fam(Family("mixed", {
    "e": ["1", "a", "x", "(t $e)", "(set x $e)", "(+ $e $e $e)", "(if $e $e $e)", "(do $e $e)", "((fn [] $e))",
          "(let [p $e] (tuple p $e))", "(try $e ([err] err))", "(error $e)", "[$e ;[$e]]", "(and $e $e)",
          "(do (var i 0) (while (< i 2) (++ i) $e) i)", "(do (def f (fn [p] $e)) (f $e))", "(quasiquote (a (unquote $e)))",
          "(seq [i :range [0 2]] $e)", "(def [p q] [$e $e])", "(< $e $e $e)"],
}, quick=4, thorough=5, extra=5, ctx_thorough=ALL_CTX))


# ---- sweep: the number of live locals crosses the near/far register boundary (240 and 256) one by one
_SWEEP_E = ["(+ a b x)", "(set x (+ x a))", "(tuple a b x y)", "(if (< a b) x y)", "(do (var i 0) (while (< i 3) (++ i)) i)",
            "(let [p a q b] (- q p))", "((fn [p q] (- p q)) x a)", "[a ;(tuple b x)]", "(do (def [p q] [a b]) (tuple q p))",
            "(and a b)", "(or nil x)", "{:k a :j x}", "@[y x]", "(get [a b] 1)", "(length [a b x])", "(do (set y (- y x a)) y)",
            "(< a b x y)", "(do (each p [a b] (set x (+ x p))) x)", "(seq [i :range [0 3]] (+ i a))", "(apply tuple a [b x])",
            "(quasiquote (a (unquote x) (unquote (splice [a b]))))", "(+ 1 :k)", "(in [a] 3)", "(t (t x))", "(do (var p a) (set p (+ p x)) (set x p) p)",
            "(if a (if b (set x 1) 2) 3)", "(do (def tb @{}) (set (tb a) x) (put tb b y) tb)", "(case x 100 a b)", "(not= a b x)",
            "(do (var i 0) (var s 0) (while true (++ i) (if (> i 3) (break)) (set s (+ s i))) s)"]


def _sweep_ctx(tier):
    ns = range(236, 260) if tier == "quick" else range(225, 263)
    return ["sweep:%s:%d" % (v, n) for v in ("def", "temps", "tail") for n in ns] + ["fn-def", "fn-tail"]


_sw = product_family("sweep", lambda tier: _SWEEP_E)
_sw.contexts = _sweep_ctx

# ---- templates: constructs outside the reference evaluator (match, generators, fibers, prompt/label, varfn, short-fn,
# threading macros, higher-order library functions with closures, dynamic bindings): context law only
_TEMPLATES = [
    "(match x 100 :hundred _ :other)", "(match [a b] [1 q] q _ :no)", "(match {:k a} {:k v} (+ v 1))",
    "(match [a x y] [p & rest] (tuple p rest))", "(match (tuple a (t b)) [1 (q (> q 5))] q [1 q] (- q))",
    "(do (def g (generate [i :range [0 3]] (* i b))) (tuple (resume g) (resume g) (resume g) (resume g)))",
    "(do (def co (coro (yield a) (set x (+ x 1)) (yield x) :done)) (tuple (resume co) (resume co) (resume co) (fiber/status co) x))",
    "(do (def f (fiber/new (fn [] (yield 1) (error :boom)) :ye)) (tuple (resume f) (resume f) (fiber/status f)))",
    "(prompt :p (+ 1 (return :p x)))", "(label lb (each i [1 2 3] (if (= i 2) (return lb (+ i a)))))",
        "(map |(+ $ a) [1 2 3])", "(map (fn [p q] (+ p q x)) [1 2] [10 20])", "(filter |(> $ a) [0 1 2 3])", "(reduce + x [a b])",
    "(reduce (fn [acc el] (set y (+ y el)) (+ acc el)) 0 [1 2 3])", "(-> x (+ a) (* 2))", "(->> [1 2 3] (map |(* $ b)) (filter odd?))",
    "(as-> a z (+ z 1) (* z z))", "(sort @[3 a 2] >)", "(sort-by |(- $) @[3 a 2])", "(string/join (map string [a b x]) \"-\")",
    "(do (def tb @{}) (put-in tb [:p :q] x) (get-in tb [:p :q]))", "(update @{:k a} :k inc)", "((comp inc inc) a)", "((partial + a b) x)",
    "(do (defn- pf [p] (* p 2)) (pf x))", "(if-with [p a (fn [z] (t z))] (t p) :no)", "(when-with [p x (fn [z] (t z))] (t p))",
    "(do (var n 0) (forever (++ n) (if (> n 3) (break))) n)", "(tabseq [i :range [0 3]] i (* i b))", "(catseq [i :range [0 2]] [i a])",
    "(cond (> a b) :gt (< a b) :lt :eq)", "(case (type x) :number :num :string :str)", "(try (error {:code a}) ([{:code c}] c))",
    "(with-dyns [:foo a] (dyn :foo))", "(do (setdyn :bar x) (dyn :bar))", "(let [bf @\"\"] (with-dyns [:out bf] (prin a b)) (string bf))",
    "(protect (error x))", "(do (var s 0) (each [p q] [[1 2] [3 4]] (+= s (* p q))) s)", "(seq [[p q] :pairs {:k a}] [p q])",
    "(keep |(if (> $ 1) (* $ a)) [1 2 3])", "(find |(> $ a) [0 1 2 3])", "(take-while |(< $ 3) [1 2 3 4])",
    "(string/format \"%d-%d\" a x)", "(do (def [p q] (if (> x 50) [a b] [b a])) (- q p))",
    "((fn rec [n] (if (< n 2) n (+ (rec (- n 1)) (rec (- n 2))))) 10)",
    "(do (def memo @{}) (defn fibm [n] (or (get memo n) (let [v (if (< n 2) n (+ (fibm (- n 1)) (fibm (- n 2))))] (put memo n v) v))) (fibm 15))",
    "(do (var cnt 0) (defn tick [] (++ cnt)) (repeat 3 (tick)) (tuple cnt x))", "(do (def fs (seq [i :range [0 3]] (fn [] (* i b)))) (map |($) fs))",
    "(do (def [ok v] (protect (+ a :k))) (tuple ok (string? v)))", "(let [p (fn [& r] (length r))] (tuple (p) (p a) (p a b x)))",
    "(do (defn kw [&named p q] (tuple p q)) (kw :q a :p x))", "(do (defn kv [&keys ks] (ks :k)) (kv :k b))",
    "(do (var out @[]) (loop [i :range [0 3] j :range [i 3] :when (not= i j)] (array/push out [i j])) out)",
    "(do (def gen (fiber/new (fn [] (each v [a b x] (yield v))) :yi)) (seq [v :in gen] (* v 2)))",
    "(do (def st @[]) (defer (array/push st :d) (array/push st a)) st)", "(edefer (t :never) (t a))",
    "(do (def tb @{:k 1}) (eachp [k v] tb (t k) (t v)) (length tb))", "(unless (= a 2) (t :u) x)",
    "(+ ;(map |(* $ $) [a b]))", "(let [[p & q] [a b x]] (apply + p q))", "(string a :k 'sym \"s\")",
    "(do (def bf @\"\") (buffer/push bf \"x\" (string x)) (string bf))", "(math/floor (/ x 3))", "(% y 7)", "(band x 12)", "(mod (- x) 7)",
    "(do (def g (coro (each v [1 2] (yield v)) (error :g-err))) (tuple (resume g) (resume g) (try (resume g) ([e] e))))",
    "(let [p @[]] (each v [a b] (array/push p (t v))) (tuple/slice p))", "(struct ;(mapcat |[$ (* $ 2)] [a b]))",
    "(do (defmacro- twice [e] ~(do ,e ,e)) 1)",
]
fam(Family("templates", exprs=lambda tier: [model.Raw(t) for t in _TEMPLATES], use_model=False))

# ---- far-upvalue: closures capturing locals whose slot number exceeds 255 (loop-free on purpose:
# a wrong upvalue in a loop condition may not terminate).  Known defect, see NOTES.md.
fam(Family("far-upvalue", {
    "e": ["a", "x", "(t b)", "(set x 5)", "(+ a x)", "((fn [] y))", "((fn [p] (set y p)) 3)", "(tuple a b x y)"],
}, quick=1, thorough=1, ctx_quick=["far-closure", "far", "fn-def", "closure"], ctx_thorough=["far-closure", "far", "fn-def", "closure"],
    keep_far="far-upvalue", doc="upvalue index above 255"))


# ---- keys-odd-args: an odd number of key/value arguments to a &keys / &named function: the last one is ignored.
# (Was a defect -- read beyond the arguments on the fiber stack -- fixed in /repo by f286ca6; see NOTES.md.)
product_family("keys-odd-args", lambda tier: [
    "(do (defn f [&keys p] p) (f 1))",
    "(do (defn f [&keys p] p) (f 1 :j 2))",
    "(do (defn f [&keys p] p) (defn h [q u v w z m n] (f q u v w z)) (h 1 2 3 4 5 6 7))",
    "(do (defn f [&keys p] p) (defn h [] (f 1 :j 2 :k 3)) (h))",
    "(do (defn f [p &keys q] (tuple p q)) (f 1 :k))",
    "(do (defn f [&named p] p) (f :p 1 :q))",
    "(do (defn f [&keys p] p) (f a b x))",
], ctx_thorough=ALL_CTX)

# ---- far-error-operand: (error v) in a function with more than 240 live locals.
# (Was a defect -- fixed in /repo by 76f7bf9 / 716c04b; now ordinary cases, see NOTES.md.)
fam(Family("far-error-operand", {
    "e": ["(error :e1)", "(error 1)", "(error (tuple a x))", "(error x)", "(do (var p 5) (error p))", "(if a (error :e1) 2)",
          "(try (error :e1) ([err] err))"],
}, quick=1, thorough=1, ctx_quick=["far", "far-tail", "far-temps", "fn-def"], ctx_thorough=["far", "far-tail", "far-temps", "fn-def"]))

# ---- far-rest-destructure: [p & q] destructuring in a function with more than 240 live locals.  Known defect.
fam(Family("far-rest-destructure", {
    "e": ["(do (def [p & q] [1 2 3]) (tuple p q))", "(let [[& q] [1 2]] q)", "(do (var [p & q] @[1 2 3 4]) q)",
          "(do (def [p & q] [1]) q)"],
}, quick=1, thorough=1, ctx_quick=["far", "far-tail", "far-temps", "fn-def"], ctx_thorough=["far", "far-tail", "far-temps", "fn-def"],
    keep_far="far-rest-destructure"))

# ---- wide-destructure: positional patterns whose length crosses 256 (the index stops fitting the 8-bit immediate of
# get-index and a constant index is used instead): every position must receive its own element
def _wide(tier):
    out = []
    for n in (255, 256, 257, 258, 300) if tier == "quick" else (254, 255, 256, 257, 258, 259, 300, 513):
        names = " ".join("p%d" % i for i in range(n))
        vals = " ".join(str(1000 + i) for i in range(n))
        pick = "(tuple p0 p1 %s)" % " ".join("p%d" % i for i in range(max(2, n - 5), n))
        out.append("(do (def [%s] [%s]) %s)" % (names, vals, pick))
        out.append("(do (var [%s] @[%s]) %s)" % (names, vals, pick))
        out.append("(let [[%s] [%s]] %s)" % (names, vals, pick))
        out.append("((fn [[%s]] %s) [%s])" % (names, pick, vals))
    return out


product_family("wide-destructure", _wide, ctx_quick=["top-def", "fn-def", "fn-tail"], ctx_thorough=["top-def", "fn-def", "fn-tail", "closure"])

# ---- iflet-else-position: an error raised by macro-generated code inside the else branch of if-let is attributed
# to the enclosing form (the branch is pre-expanded with macex, which drops the macro form's position).  See NOTES.md.
fam(Family("iflet-else-position", {
    "e": ["(if-let [p nil] 1 (do (each q nil (t q)) x))", "(if-let [p false] 1 (tuple 1 (each q 5 q)))",
          "(if-let [p nil] 1 (do (var w :k) (++ w)))", "(if-let [p nil] 1 (each q nil q))", "(if-let [p nil] 1 (do (+ 1 :k)))"],
}, quick=1, thorough=1, ctx_quick=NEAR_CTX, ctx_thorough=NEAR_CTX, keep_far="iflet-else-position"))

# ---- dead-destructure: positional destructuring of a non-indexable value whose bound names are never used:
# the optimiser deletes the get-index instructions although they raise.  Known defect, see NOTES.md.
fam(Family("dead-destructure-no-error", {
    "e": ["(def [p q] a)", "(do (def [p q] 5) 1)", "(let [[p] nil] 2)", "((fn [[p]] 3) 7)", "(do (var [p] x) 4)",
          "(do (def [p q] a) p)"],
}, quick=1, thorough=1, ctx_quick=NEAR_CTX, ctx_thorough=NEAR_CTX, keep_far="dead-destructure-no-error"))
