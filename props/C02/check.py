#!/usr/bin/env python3
"""C02 -- compiled bytecode computes what the source program means.

Bounded-exhaustive enumeration of core-language expressions (families of grammars, all
trees up to a size bound), each embedded in every compilation context, executed by the
real interpreter and compared with (1) an independent tree-walking reference evaluator
(model.py) and (2) the model-free context law.  See NOTES.md.
"""
import hashlib
import multiprocessing
import os
import re
import sys
import time

PROPDIR = os.path.dirname(os.path.abspath(__file__))
sys.path.insert(0, os.path.join(PROPDIR, "..", "..", "engine", "mc"))
sys.path.insert(0, PROPDIR)
from core import *          # noqa: E402,F401
import core as _core        # noqa: E402
import model                # noqa: E402
import gen                  # noqa: E402
import families             # noqa: E402
from model import Sym        # noqa: E402

DRIVER = os.path.join(PROPDIR, "driver.janet")
NPROC = int(os.environ.get("VERIF_JOBS", "16"))

_OPQ = re.compile(r'"(?:[^"\\]|\\.)*"')


def matches(expected, actual):
    """expected may contain <?> = any string literal"""
    if expected == actual:
        return True
    if "<?>" not in expected:
        return False
    parts = expected.split("<?>")
    rx = "".join(re.escape(p) + (_OPQ.pattern if i < len(parts) - 1 else "") for i, p in enumerate(parts))
    return re.fullmatch(rx, actual) is not None


_OUT = re.compile(r"^(V|E|CE|PE) (.*?)(?: @(\d+|\?):(\d+|\?))?\|([^|]*)\|([^|]*)$", re.S)


def parse_out(text):
    """-> dict(kind, val, line, col, obs(list), trace)"""
    # value text may contain '|' only inside strings; obs/trace never do in generated programs
    i2 = text.rfind("|")
    i1 = text.rfind("|", 0, i2)
    head, obs, trace = text[:i1], text[i1 + 1:i2], text[i2 + 1:]
    kind, _, rest = head.partition(" ")
    line = col = None
    if kind in ("E", "CE"):
        m = re.search(r" @(\d+|\?|nil):(\d+|\?|nil)$", rest)
        if m:
            rest = rest[:m.start()]
            line = int(m.group(1)) if m.group(1).isdigit() else None
            col = int(m.group(2)) if m.group(2).isdigit() else None
    return dict(kind=kind, val=rest, line=line, col=col, obs=obs, trace=trace)


def split_obs(s):
    """split the obs field into canonical values (space separated at nesting depth 0)"""
    out, depth, cur, instr, esc = [], 0, [], False, False
    for ch in s:
        if instr:
            cur.append(ch)
            if esc:
                esc = False
            elif ch == "\\":
                esc = True
            elif ch == '"':
                instr = False
            continue
        if ch == '"':
            instr = True
            cur.append(ch)
        elif ch in "([{":
            depth += 1
            cur.append(ch)
        elif ch in ")]}":
            depth -= 1
            cur.append(ch)
        elif ch == " " and depth == 0:
            out.append("".join(cur))
            cur = []
        else:
            cur.append(ch)
    if cur:
        out.append("".join(cur))
    return out


# --------------------------------------------------------------------------
# evaluating one expression in all contexts

class Case(object):
    __slots__ = ("ctx", "text", "expected", "actual", "status", "eline", "steps", "hazard")


def build_cases(E, ctxs, use_model, keep_far=None, variant=None):
    """-> list of Case (without .actual), or None when the model excludes E.
    Cases that exercise a known defect which can corrupt the process or fail to terminate
    (`far-upvalue`: a closure captures a local whose slot is above 255; `far-rest-destructure`; `iflet-else-position`)
    are marked .hazard and are executed only by the dedicated family (keep_far=name).
    variant(E, ctx) -> E' lets the classification use a per-context rewrite of E."""
    cases = []
    rendered = None if variant else gen.render_expr(E)
    for name in ctxs:
        Ec = variant(E, name) if variant else E
        text, forms, pos, off = gen.build_program(name, Ec, rendered)
        c = Case()
        c.ctx, c.text, c.eline = name, text, off + 1
        c.expected = None
        c.steps = 0
        c.hazard = ()
        if use_model:
            try:
                c.expected, c.steps, c.hazard = model.predict(forms, pos, off)
            except model.Unsupported:
                return None
            except RecursionError:
                return None
        elif (name.startswith("far") or name.startswith("sweep")) and (name == "far-closure" or gen.static_far_hazard(E)):
            c.hazard = ("far-upvalue",)
        if c.hazard and not (keep_far and set(c.hazard) <= set([keep_far])):
            continue
        cases.append(c)
    return cases


def law_view(c):
    """context-independent observation of E from one run: dict of components.  String contents are
    masked: messages of errors raised by the VM are not part of the property and do differ between
    contexts (heap addresses, `add` vs `add-immediate` wording); strings are compared by the model only."""
    o = parse_out(_OPQ.sub('"~"', c.actual))
    comps = gen.ctx_comps(c.ctx)
    d = {}
    d["trace"] = o["trace"]
    if o["kind"] == "E":
        rel = None if o["line"] is None else (o["line"] - c.eline, o["col"])
        d["err"] = (o["val"], rel)
    elif o["kind"] == "V":
        d["err"] = None
        obs = split_obs(o["obs"])
        val = None
        if "V" in comps:
            val = o["val"]
        if "r" in comps and obs:
            val = obs[0]
            obs = obs[1:]
        if val is not None:
            d["val"] = val
        if "xy" in comps and len(obs) >= 2:
            x, y = obs[0], obs[1]
            if "setx" in comps:
                if val is not None:
                    d["x=val"] = (x == val)
                else:
                    d["val"] = x
            else:
                d["x"] = x
            if "sety" in comps:
                d["val"] = y
            else:
                d["y"] = y
    else:
        d["err"] = ("#" + o["kind"] + " " + o["val"], None)
    return d




def judge(cases, use_model, positions=True):
    """-> list of (oracle, component, ctx, detail) problems"""
    probs = []
    if any(c.status == "ABORTED" for c in cases):
        return []
    for c in cases:
        if c.status != "OK":
            probs.append(("run", c.status.lower(), c.ctx, c.actual[:300]))
    for c in cases:
        if c.status == "OK" and not use_model and (c.actual.startswith("CE ") or c.actual.startswith("PE ")):
            probs.append(("run", "compile-error", c.ctx, c.actual[:300]))
    if probs:
        return probs
    if use_model:
        for c in cases:
            if not matches(c.expected, c.actual):
                e, a = parse_out(c.expected), parse_out(c.actual)
                comp = "kind"
                if e["kind"] == a["kind"]:
                    if not matches(e["val"], a["val"]):
                        comp = "value" if e["kind"] == "V" else "error-payload"
                    elif (e["line"], e["col"]) != (a["line"], a["col"]):
                        comp = "error-position"
                    elif e["trace"] != a["trace"]:
                        comp = "trace"
                    else:
                        comp = "vars"
                probs.append(("model", comp, c.ctx, "expected %s got %s" % (c.expected, c.actual)))
    views = [(c, law_view(c)) for c in cases]
    ref = {}
    for c, v in views:
        if not positions and v.get("err"):
            v["err"] = v["err"][0]
        for k, val in v.items():
            if k == "x=val":
                if val is not True:
                    probs.append(("law", "set-target", c.ctx, "after (set x E) x differs from the value of E: %s" % c.actual))
                continue
            if k not in ref:
                ref[k] = (val, c.ctx)
            elif ref[k][0] != val:
                probs.append(("law", {"val": "value", "err": "error", "x": "vars", "y": "vars"}.get(k, k), c.ctx,
                              "%s in context %s is %r but in context %s it is %r" % (k, c.ctx, val, ref[k][1], ref[k][0])))
    return probs


def jstr(text):
    """Janet string literal for a program text (ASCII; only backslash, quote and newline need escaping)"""
    if not text.isascii() or "\r" in text or "\t" in text or "\0" in text:
        return jdn(text)
    return '"' + text.replace("\\", "\\\\").replace('"', '\\"').replace("\n", "\\n") + '"'


ABORT_LIMIT = 6
_EXE = [None]
_ABORT = multiprocessing.get_context("fork").Value("i", 0)


def run_cases(all_cases, chunk=600, count_bad=True):
    """fills .status/.actual of every Case, chunk by chunk in this process.  Programs that do not
    terminate or kill the interpreter are expensive (a time-out per program): once ABORT_LIMIT of them
    have been seen (by all workers together) the remaining cases are marked ABORTED and not run; the
    time-outs seen so far are reported as violations and the run stops with a recorded cap."""
    for lo in range(0, len(all_cases), chunk):
        sub = all_cases[lo:lo + chunk]
        if count_bad and _ABORT.value >= ABORT_LIMIT:
            for c in all_cases[lo:]:
                c.status, c.actual = "ABORTED", ""
            return
        # the interpreter binary is resolved once per run (_EXE): a commit to the repository while the
        # check is running must not change the system under test half way
        res = _core._run_chunk(_EXE[0], DRIVER, [jstr(c.text) for c in sub], None, 3, ())
        bad = 0
        for c, (st, text) in zip(sub, res):
            c.status, c.actual = st, text
            if st in ("TIMEOUT", "CRASH"):
                bad += 1
        if bad and count_bad:
            with _ABORT.get_lock():
                _ABORT.value += bad


# --------------------------------------------------------------------------
# workers.  One *step* = the expressions of one family of exactly one size (or one explicit product);
# the parent generates the list, then forks the pool, so the workers share it.

_CUR = {"fam": None, "tier": None, "exprs": []}


def work(task):
    lo, hi = task
    fam, tier = _CUR["fam"], _CUR["tier"]
    F = families.FAMILIES[fam]
    exprs = _CUR["exprs"][lo:hi]
    ctxs = F.contexts(tier)
    built = []
    skipped = 0
    farskip = 0
    for idx, E in enumerate(exprs):
        cases = build_cases(E, ctxs, F.use_model, F.keep_far)
        if cases is None or not cases:
            skipped += 1
            continue
        farskip += len(ctxs) - len(cases)
        built.append((lo + idx, E, cases))
    flat = [c for _, _, cs in built for c in cs]
    run_cases(flat)
    res = dict(exprs=len(built), skipped=skipped, programs=len(flat), failing=[], outcomes=set(),
               steps=sum(c.steps for c in flat), errors=0, farskip=farskip)
    for idx, E, cases in built:
        if os.environ.get("C02_DUMP"):
            sys.stderr.write("DUMP %s\t%s\t%s\n" % (fam, model.rtext(E), cases[0].actual))
        if any(c.status == "ABORTED" for c in cases):
            res["aborted"] = res.get("aborted", 0) + 1
            continue
        probs = judge(cases, F.use_model)
        h = hashlib.blake2b(cases[0].actual.encode("utf-8", "surrogateescape"), digest_size=8).digest()
        res["outcomes"].add(h)
        if cases[0].actual.startswith("E "):
            res["errors"] += 1
        if probs:
            res["failing"].append((idx, probs))
    return res


SETS = {"set-x": Sym("x"), "top-set-x": Sym("x"), "far-set-x": Sym("x"), "set-y": Sym("y")}


def v_setalias(E, ctx):
    e = gen.rewrite_setalias(E)
    v = SETS.get(ctx)
    return gen.hinted(e, v) if v is not None else e


def v_setput(E, ctx):
    e = gen.rewrite_setalias_put(E)
    v = SETS.get(ctx)
    return gen.hinted(e, v, put=True) if v is not None else e


def v_lateread(E, ctx):
    return gen.rewrite_lateread(E)


def _compose(*fs):
    def f(E, ctx):
        for g in fs:
            E = g(E, ctx)
        return E
    return f


_BASE = [("set-alias-operand", v_setalias), ("set-alias-put", v_setput), ("operand-read-late", v_lateread)]
VARIANTS = list(_BASE)
for _i in range(len(_BASE)):
    for _j in range(_i + 1, len(_BASE)):
        VARIANTS.append((_BASE[_i][0] + "+" + _BASE[_j][0], _compose(_BASE[_i][1], _BASE[_j][1])))
VARIANTS.append(("+".join(b[0] for b in _BASE), _compose(*[b[1] for b in _BASE])))


def classify_work(items):
    """For failing expressions: re-run them with the known-defect patterns neutralised by a
    meaning-preserving rewrite; the first rewrite (singles, then pairs, then all) that makes every
    context agree with the model and the law names the root cause(s).  -> [(idx, sig or None)]"""
    fam, tier = _CUR["fam"], _CUR["tier"]
    F = families.FAMILIES[fam]
    ctxs = F.contexts(tier)
    exprs = _CUR["exprs"]
    plans = []
    for idx, probs in items:
        E = exprs[idx]
        built = []
        if type(E) is not model.Raw:
            base = [model.rtext(E)] * len(ctxs)
            seen = [base]
            for sig, vf in VARIANTS:
                texts = [model.rtext(vf(E, c)) for c in ctxs]
                if texts in seen:
                    continue
                seen.append(texts)
                cs = build_cases(E, ctxs, F.use_model, F.keep_far, variant=vf)
                if cs:
                    built.append((sig, cs))
        plans.append((idx, built))
    flat = [c for _, built in plans for _, cs in built for c in cs]
    if flat:
        run_cases(flat)
    out = []
    for idx, built in plans:
        sig = None
        for s, cs in built:
            if not judge(cs, F.use_model, positions=False):
                sig = s
                break
        out.append((idx, sig))
    return out


# --------------------------------------------------------------------------

def replay_for(fam, E, probs):
    F = families.FAMILIES[fam]
    oracle, comp, ctx, detail = probs[0]
    text, forms, pos, off = gen.build_program(ctx, E)
    exp = None
    if F.use_model:
        try:
            exp = model.predict(forms, pos, off)[0]
        except Exception:
            exp = None
    hdr = ("# expression under test:  %s\n# context: %s   failing check: %s/%s\n# %s\n"
           "# expected by the reference evaluator (value|obs|trace): %s\n"
           "# Stand-alone: runs on plain janet.  The program text below is compiled form by form with `compile` in a\n"
           "# fresh environment (tracer t, obs, id defined) and run in a fiber, exactly as the check's driver does;\n"
           "# it prints obs values, the result or the error with its stack trace (line:column), and the trace of t.\n"
           % (model.rtext(E), ctx, oracle, comp, detail.replace("\n", " ")[:600], exp))
    body = ("(def program ````\n" + text + "\n````)\n" + REPLAY_RUNNER)
    return hdr + body


REPLAY_RUNNER = """(def trace @[])
(def env (make-env))
(put env 't @{:value (fn t [x] (array/push trace (string/format "%q" x)) x)})
(put env 'obs @{:value (fn obs [& xs] (printf "obs: %q" xs) :%obs)})
(put env 'id @{:value (fn id [x] x)})
(def p (parser/new))
(parser/consume p program)
(parser/eof p)
(var res nil)
(while (parser/has-more p)
  (def form (parser/produce p))
  (def f (compile form env "program"))
  (if (function? f)
    (do
      (def fib (fiber/new f :e))
      (fiber/setenv fib env)
      (def v (resume fib))
      (if (= (fiber/status fib) :error)
        (do (printf "error: %q" v) (debug/stacktrace fib v "") (break))
        (if (not= v :%obs) (set res v))))
    (do (printf "compile error: %q" f) (break))))
(printf "result: %q" res)
(printf "trace: %q" trace)
"""


def main():
    chk = Check("C02", description=__doc__)
    tier = chk.tier
    chk.rule("every expression tree of each family grammar up to the family's size bound (size = number of "
             "grammar productions used), enumerated smallest first, is embedded in every compilation context "
             "(top level / fn body / tail / dropped / call argument / if branch / closure / nested closure / "
             "while body / while rewritten as a function / target of set on x or y / 260 live locals before or "
             "after the variables) and run by the real interpreter; one case = one (expression, context) program; "
             "distinct = distinct program text; non-trivial = distinct observed outcome of the expression")
    chk.assume("the Janet parser, `compile`, fibers, debug/stack and the canonical printer of the driver are trusted "
               "only as far as they transport the observation; the reference evaluator (model.py) is the oracle")
    chk.assume("sizes beyond the stated bound and constructs outside each family's grammar are not covered")
    chk.assume("cases that exercise a known defect able to derail other cases (far-upvalue: may loop for ever; "
               "far-rest-destructure, iflet-else-position) are executed only in the "
               "dedicated families; they are counted as cases_not_run_known_hazard")
    _EXE[0] = vjanet("fast")
    t_start = time.time()       # the budget governs the exploration, not the (cached) build

    def spent():
        return time.time() - t_start
    only = chk.args.only.split(",") if chk.args.only else None
    ctxm = multiprocessing.get_context("fork")
    reported = {}
    fam_names = [n for n in families.ORDER if (only is None or n in only)]
    # steps: (rank, order, family, level); rank <= 0: inside the quick bound; 1, 2..: beyond it
    steps = []
    for k, fam in enumerate(fam_names):
        F = families.FAMILIES[fam]
        for lv in F.levels(tier):
            r = max(0, F.rank(lv))
            cost = F.count(tier, lv) * len(F.contexts(tier)) if r > 0 else (lv if isinstance(lv, int) else 0)
            steps.append((r, cost, k, fam, lv))
    steps.sort(key=lambda s: s[:3])
    done_bound = {}
    capped = set()
    rate = None            # programs per second, measured
    tot_prog = 0
    tot_time = 0.0
    for rank, _, _, fam, lv in steps:
        F = families.FAMILIES[fam]
        if fam in capped:
            continue
        nctx = len(F.contexts(tier))
        t0 = time.time()
        if rank == 0 and spent() > chk.budget * 0.75:
            chk.cap("%s: %s not run (time budget exhausted; machine slower than the tier was sized for)" % (fam, F.describe(lv)))
            capped.add(fam)
            continue
        if rank > 0:
            est_n = F.count(tier, lv) * nctx
            est = est_n / rate if rate else 0
            if spent() + est * 1.5 > chk.budget * 0.85:
                chk.cap("%s: size %s not run (estimated %d programs, %.0fs; budget)" % (fam, lv, est_n, est))
                capped.add(fam)
                continue
        exprs = F.level_exprs(tier, lv)
        n = len(exprs)
        if n == 0:
            done_bound[fam] = lv
            continue
        _CUR.update(fam=fam, tier=tier, exprs=exprs)
        per = max(4, min(6000 // nctx, -(-n // (4 * NPROC))))
        tasks = [(lo, min(n, lo + per)) for lo in range(0, n, per)]
        failing = []
        aborted = 0
        stats = dict(exprs=0, skipped=0, programs=0, steps=0, errors=0, farskip=0)
        outcomes = set()
        pool = ctxm.Pool(min(NPROC, len(tasks)))
        try:
            for r in pool.imap_unordered(work, tasks):
                aborted += r.get("aborted", 0)
                for k in stats:
                    stats[k] += r[k]
                outcomes |= r["outcomes"]
                failing.extend(r["failing"])
            failing.sort(key=lambda e: e[0])
            cl = {}
            if failing and not F.keep_far:
                ctasks = [failing[i:i + 24] for i in range(0, len(failing), 24)]
                for r in pool.imap_unordered(classify_work, ctasks):
                    for idx, sig in r:
                        cl[idx] = sig
        finally:
            pool.terminate()
            pool.join()
        nsig = {}
        for idx, probs in failing:
            sig = cl.get(idx)
            if sig is None and F.keep_far:
                sigs = [F.keep_far]
            elif sig is None:
                oracle, comp, ctx, detail = probs[0]
                ctxset = sorted(set(p[2] for p in probs))
                sigs = ["%s:%s:%s:%s" % (fam, oracle, comp, "all-contexts" if len(ctxset) == nctx else ctxset[0])]
            else:
                sigs = sig.split("+")
            for s in sigs:
                nsig[s] = nsig.get(s, 0) + 1
                if s not in reported:
                    reported[s] = True
                    E = exprs[idx]
                    # a violation must reproduce in a fresh process before it is printed
                    again = build_cases(E, F.contexts(tier), F.use_model, F.keep_far)
                    run_cases(again, count_bad=False)
                    if not judge(again, F.use_model):
                        raise HarnessError("violation %s of %s did not reproduce: %s" % (s, model.rtext(E), probs[:2]))
                    chk.violation(sig=s,
                                  what="family %s, expression %s: %s" % (fam, model.rtext(E), "; ".join(
                                      "%s/%s in %s: %s" % p for p in probs[:3])),
                                  replay_text=replay_for(fam, E, probs), replay_cmd="janet <this file>")
                else:
                    chk.violation(sig=s, what="")
        dt = time.time() - t0
        tot_prog += stats["programs"]
        tot_time += dt
        if tot_prog > 20000:
            rate = tot_prog / tot_time
        chk.add(evaluations=stats["programs"], transitions=stats["steps"], states=stats["exprs"])
        for h in outcomes:
            chk.outcome((fam, h))
        chk.part(fam, expressions=stats["exprs"], programs=stats["programs"], contexts=nctx,
                 excluded_by_model=stats["skipped"], cases_not_run_known_hazard=stats["farskip"],
                 raising=stats["errors"], failing=len(failing), wall_s=round(dt, 1),
                 **dict(("sig:" + k, v) for k, v in nsig.items()))
        if not aborted:
            chk.part(fam, bound_completed=F.describe(lv))
            done_bound[fam] = lv
        chk.sample(dict(family=fam, level=str(lv), first=model.rtext(exprs[0]), middle=model.rtext(exprs[n // 2]),
                        last=model.rtext(exprs[-1])), limit=200)
        sys.stderr.write("[%s %s] %d expr x %d ctx = %d programs, %d outcomes, %d raising, %d excluded, %d hazard-skipped, %d failing %s (%.1fs)\n" % (
            fam, F.describe(lv), stats["exprs"], nctx, stats["programs"], len(outcomes), stats["errors"], stats["skipped"],
            stats["farskip"], len(failing), nsig, dt))
        if _ABORT.value >= ABORT_LIMIT:
            chk.cap("stopped in %s (%s): %d programs did not terminate or killed the interpreter; %d expressions of this "
                    "step and all later steps not run" % (fam, F.describe(lv), _ABORT.value, aborted))
            break
        if stats["exprs"] >= 8 and len(outcomes) < 2:
            raise HarnessError("family %s level %s is vacuous: %d distinct outcomes" % (fam, lv, len(outcomes)))
    # keep only three samples per family in the evidence (first level, a middle one, the last)
    by = {}
    for s in chk.cov["samples"]:
        by.setdefault(s["family"], []).append(s)
    chk.cov["samples"] = [v[i] for v in by.values() for i in sorted(set((0, len(v) // 2, len(v) - 1)))]
    chk.cov["bound_completed"] = "; ".join("%s: %s" % (f, families.FAMILIES[f].describe(done_bound[f]))
                                           for f in fam_names if f in done_bound)
    chk.finish()


if __name__ == "__main__":
    harness_guard(main)
