"""Program generation for C02: grammar enumeration by size, embedding contexts,
and the two classification rewrites (see NOTES.md).  stdlib only."""
import model
from model import (Sym, Kw, Tup, Arr, Struct, Tab, Hole, read, read_all, subst, T, Renderer, rtext)

# --------------------------------------------------------------------------
# grammar engine: nonterminal -> list of template texts; holes are $<nonterminal>[digits]
# size of a tree = number of productions used.  gen(nt, n) = all trees of size exactly n.


def _holes(x, out):
    t = type(x)
    if t is Hole:
        out.append(x)
    elif t is Tup or t is Arr:
        for i in x.v:
            _holes(i, out)
    elif t is Struct or t is Tab:
        for k, v in x.d.values():
            _holes(k, out)
            _holes(v, out)


def _fill(x, it):
    """replace holes in traversal order by successive items of iterator `it`"""
    t = type(x)
    if t is Hole:
        return next(it)
    if t is Tup:
        return Tup([_fill(i, it) for i in x.v], x.b)
    if t is Arr:
        return Arr([_fill(i, it) for i in x.v])
    if t is Struct:
        return Struct([(_fill(k, it), _fill(v, it)) for k, v in x.d.values()])
    if t is Tab:
        return Tab([(_fill(k, it), _fill(v, it)) for k, v in x.d.values()])
    return x


class Grammar(object):
    def __init__(self, rules):
        self.rules = {}
        for nt, prods in rules.items():
            lst = []
            for p in prods:
                ast = read(p)
                hs = []
                _holes(ast, hs)
                lst.append((ast, [h.name.rstrip("0123456789") for h in hs]))
            self.rules[nt] = lst
        self.memo = {}

    def gen(self, nt, n):
        key = (nt, n)
        r = self.memo.get(key)
        if r is not None:
            return r
        out = []
        for ast, hs in self.rules[nt]:
            k = len(hs)
            if k == 0:
                if n == 1:
                    out.append(ast)
                continue
            if n - 1 < k:
                continue
            for split in _compositions(n - 1, k):
                pools = [self.gen(h, s) for h, s in zip(hs, split)]
                if any(not p for p in pools):
                    continue
                for combo in _product(pools):
                    out.append(_fill(ast, iter(combo)))
        self.memo[key] = out
        return out

    def count_exact(self, nt, n, _memo=None):
        """number of trees of size exactly n, without building them"""
        if _memo is None:
            _memo = self.__dict__.setdefault("cmemo", {})
        key = (nt, n)
        r = _memo.get(key)
        if r is not None:
            return r
        total = 0
        for ast, hs in self.rules[nt]:
            k = len(hs)
            if k == 0:
                total += 1 if n == 1 else 0
                continue
            if n - 1 < k:
                continue
            for split in _compositions(n - 1, k):
                p = 1
                for h, s in zip(hs, split):
                    p *= self.count_exact(h, s, _memo)
                    if p == 0:
                        break
                total += p
        _memo[key] = total
        return total

    def upto(self, nt, n):
        out = []
        for i in range(1, n + 1):
            out.extend(self.gen(nt, i))
        return out

    def count(self, nt, n):
        return sum(len(self.gen(nt, i)) for i in range(1, n + 1))


def _compositions(n, k):
    if k == 1:
        yield (n,)
        return
    for first in range(1, n - k + 2):
        for rest in _compositions(n - first, k - 1):
            yield (first,) + rest


def _product(pools):
    if not pools:
        yield ()
        return
    for x in pools[0]:
        for rest in _product(pools[1:]):
            yield (x,) + rest


# --------------------------------------------------------------------------
# embedding contexts.  Free variables of E: a b (def), x y (var).
# obs order is always: [r] x y   (which = which components are observed)

DECL = "(def a 1) (def b 10) (var x 100) (var y 1000)"
LOCALS = "(upscope " + " ".join("(def l%d %d)" % (i, i) for i in range(260)) + ")"
LOCALS_N = {}


def locals_text(n):
    r = LOCALS_N.get(n)
    if r is None:
        r = LOCALS_N[n] = " ".join("(def l%d %d)" % (i, i) for i in range(n))
    return r


# name -> (template text with $E, observed components)
#   'r'  : first obs value is the value of E
#   'xy' : obs has x y (after r if present)
#   'V'  : the program result (V ...) is the value of E
#   'setx' / 'sety': x (resp. y) was assigned the value of E, so it must equal it
CONTEXTS = [
    ("top-def", DECL + " (def r $E) (obs r x y)", ("r", "xy")),
    ("top-tail", DECL + " $E (obs x y)", ("V", "xy")),
    ("top-drop", DECL + " (do $E nil) (obs x y)", ("xy",)),
    ("top-fn", DECL + " (defn ctx [] (def r $E) (obs r x y)) (ctx)", ("r", "xy")),
    ("fn-def", "(defn ctx [] " + DECL + " (def r $E) (obs r x y)) (ctx)", ("r", "xy")),
    ("fn-tail", "(defn ctx [a b] (var x 100) (var y 1000) $E) (ctx 1 10)", ("V",)),
    ("fn-drop", "(defn ctx [a b] (var x 100) (var y 1000) $E (obs x y)) (ctx 1 10)", ("xy",)),
    ("fn-arg", "(defn ctx [] " + DECL + " (def r (tuple 5 $E 6)) (obs (in r 1) x y)) (ctx)", ("r", "xy")),
    ("fn-if", "(defn ctx [a b] (var x 100) (var y 1000) (def r (if a $E 0)) (obs r x y)) (ctx 1 10)", ("r", "xy")),
    ("closure", "(defn ctx [] " + DECL + " (def g (fn [] $E)) (def r (g)) (obs r x y)) (ctx)", ("r", "xy")),
    ("closure2", "(defn ctx [a b] (var x 100) (var y 1000) (def g (fn [] (fn [] (def r $E) r))) (def r ((g))) (obs r x y)) (ctx 1 10)", ("r", "xy")),
    ("while-set", "(defn ctx [] " + DECL + " (var r nil) (var go true) (while go (set go false) (set r $E)) (obs r x y)) (ctx)", ("r", "xy")),
    ("while-drop", "(defn ctx [] " + DECL + " (var go true) (while go (set go false) $E) (obs x y)) (ctx)", ("xy",)),
    ("while-iife", "(defn ctx [] " + DECL + " (var k nil) (var go true) (while go (set go false) (def r $E) (set k (fn [] r))) (obs (k) x y)) (ctx)", ("r", "xy")),
    ("set-x", "(defn ctx [] " + DECL + " (def r (set x $E)) (obs r x y)) (ctx)", ("r", "xy", "setx")),
    ("set-y", "(defn ctx [a b] (var x 100) (var y 1000) (set y $E) (obs x y)) (ctx 1 10)", ("xy", "sety")),
    ("top-set-x", DECL + " (set x $E) (obs x y)", ("xy", "setx")),
    ("far", "(defn ctx [] " + LOCALS + " " + DECL + " (def r $E) (obs r x y)) (ctx)", ("r", "xy")),
    ("far-temps", "(defn ctx [] " + DECL + " " + LOCALS + " (def r $E) (obs r x y)) (ctx)", ("r", "xy")),
    ("far-tail", "(defn ctx [a b] (var x 100) (var y 1000) " + LOCALS + " $E) (ctx 1 10)", ("V",)),
    ("far-set-x", "(defn ctx [] " + LOCALS + " " + DECL + " (set x $E) (obs x y)) (ctx)", ("xy", "setx")),
    ("far-closure", "(defn ctx [] " + LOCALS + " " + DECL + " (def g (fn [] $E)) (def r (g)) (obs r x y l259)) (ctx)", ("r", "xy")),
    ("far-while", "(defn ctx [] " + LOCALS + " " + DECL + " (var go true) (while go (set go false) $E) (obs x y)) (ctx)", ("xy",)),
]
CTX_BY_NAME = dict((c[0], c) for c in CONTEXTS)
_ctx_ast = {}


_PLACE = Sym("%E%")


def _find_blocks(x):
    if type(x) is Tup:
        if (not x.b and len(x.v) > 1 and x.v[0] is Sym("upscope") and all(
                type(f) is Tup and len(f.v) == 3 and f.v[0] is Sym("def") and type(f.v[1]) is Sym
                and f.v[1].n[0] == "l" and f.v[1].n[1:].isdigit() for f in x.v[1:])):
            model.register_block(x)
        else:
            for i in x.v:
                _find_blocks(i)


SWEEP = {
    "def": ("(defn ctx [] %s " + DECL + " (def r $E) (obs r x y)) (ctx)", ("r", "xy")),
    "temps": ("(defn ctx [] " + DECL + " %s (def r $E) (obs r x y)) (ctx)", ("r", "xy")),
    "tail": ("(defn ctx [a b] (var x 100) (var y 1000) %s $E) (ctx 1 10)", ("V",)),
}


def ctx_text(name):
    """contexts are named; `sweep:<variant>:<n>` is the variant with n live locals"""
    if name.startswith("sweep:"):
        _, var, n = name.split(":")
        n = int(n)
        loc = "(upscope " + " ".join("(def l%d %d)" % (i, i) for i in range(n)) + ")"
        return SWEEP[var][0] % loc
    return CTX_BY_NAME[name][1]


def ctx_comps(name):
    if name.startswith("sweep:"):
        return SWEEP[name.split(":")[1]][1]
    return CTX_BY_NAME[name][2]


def static_far_hazard(E):
    """for expressions the model does not evaluate: could E hit one of the known far-slot defects?"""
    if model.contains_closure(E):
        return True
    bad = set(Sym(n) for n in ("error", "&", "&keys", "&named", "assert", "errorf"))

    if type(E) is model.Raw:
        return any(w in E.text for w in ("error", "&", "assert"))

    def walk(x):
        t = type(x)
        if t is Sym:
            return x in bad
        if t is Tup or t is Arr:
            return any(walk(i) for i in x.v)
        if t is Struct or t is Tab:
            return any(walk(k) or walk(v) for k, v in x.d.values())
        return False
    return walk(E)


def _ctx(name):
    """cached: (template forms, prefix text, number of lines before E, suffix text)"""
    a = _ctx_ast.get(name)
    if a is None:
        forms = read_all(ctx_text(name))
        for f in forms:
            _find_blocks(f)
        probe = [subst(f, {"E": _PLACE}) for f in forms]
        r = Renderer(marks=(_PLACE,))
        text = r.program(probe)
        lines = text.split("\n")
        k = r.markline[id(_PLACE)] - 1
        assert lines[k] == "%E%", lines[k]
        prefix = "".join(l + "\n" for l in lines[:k])
        suffix = "".join("\n" + l for l in lines[k + 1:])
        a = _ctx_ast[name] = (forms, prefix, k, suffix)
    return a


def context_forms(name, E):
    return [subst(f, {"E": E}) for f in _ctx(name)[0]]


def render_expr(E):
    """-> (text of E starting at line 1 column 1, pos map)"""
    r = Renderer()
    r.node(E)
    return "".join(r.out), r.pos


def build_program(name, E, rendered=None):
    """-> (text, forms, pos map of E's forms relative to E, line offset of E)"""
    forms, prefix, k, suffix = _ctx(name)
    if rendered is None:
        rendered = render_expr(E)
    etext, pos = rendered
    return prefix + etext + suffix, [subst(f, {"E": E}) for f in forms], pos, k


# --------------------------------------------------------------------------
# classification rewrites

_INLINE_OPS = set(Sym(n) for n in "+ - * / % < > <= >= = not= band bor bxor blshift brshift brushift mod div".split())
_CMP_OPS = set(Sym(n) for n in "< > <= >= = not=".split())
_ID = Sym("id")
_SET = Sym("set")
_TAIL_LAST = set(Sym(n) for n in "do upscope let when unless when-let".split())   # last form receives the hint
_TAIL_IF = set(Sym(n) for n in "if if-not if-let".split())
_NOWRAP_HEADS = set(Sym(n) for n in (
    "def var set fn quote quasiquote unquote splice break while do upscope if let when unless cond case and or "
    "if-let when-let if-not each eachk eachp for forv loop seq try defer edefer with default ++ -- += -= *= defn "
    "repeat forever comment protect").split())


def _map_children(x, fn):
    t = type(x)
    if t is Tup:
        return Tup([fn(i) for i in x.v], x.b)
    if t is Arr:
        return Arr([fn(i) for i in x.v])
    if t is Struct:
        return Struct([(fn(k), fn(v)) for k, v in x.d.values()])
    if t is Tab:
        return Tab([(fn(k), fn(v)) for k, v in x.d.values()])
    return x


def _is_quote(x):
    return type(x) is Tup and not x.b and len(x.v) == 2 and x.v[0] in (Sym("quote"), Sym("quasiquote"))


_UPD = {Sym("++"): "+", Sym("--"): "-", Sym("+="): "+", Sym("-="): "-", Sym("*="): "*"}


def expand_updates(x):
    """(+= v e ...) -> (set v (+ v e ...)) etc. (the macros' documented expansion), so that the
    rewrites below see the assignment"""
    if _is_quote(x):
        return x
    t = type(x)
    if t is Tup and not x.b and len(x.v) >= 2 and type(x.v[0]) is Sym and x.v[0] in _UPD and type(x.v[1]) is Sym:
        rest = [expand_updates(i) for i in x.v[2:]] or [1]
        return Tup((_SET, x.v[1], Tup([Sym(_UPD[x.v[0]]), x.v[1]] + rest, False)), False)
    return _map_children(x, expand_updates)


def fresh(x):
    """deep copy: source text has a distinct object (with its own source position) for every form;
    undo the sharing of subtrees introduced by the enumerator"""
    t = type(x)
    if t is Tup:
        return Tup([fresh(i) for i in x.v], x.b)
    if t is Arr:
        return Arr([fresh(i) for i in x.v])
    if t is Tab:
        return Tab([(fresh(k), fresh(v)) for k, v in x.d.values()])
    if t is Struct:
        return Struct([(fresh(k), fresh(v)) for k, v in x.d.values()])
    return x


def rewrite_setalias(x):
    _PUTMODE[0] = False
    ex = expand_updates(x)
    r = _rewrite_setalias(ex)
    # the macro expansion alone must not count as a rewrite (it changes which form carries a position)
    return x if rtext(r) == rtext(ex) else r


def rewrite_setalias_put(x):
    _PUTMODE[0] = True
    try:
        return _rewrite_setalias(x)
    finally:
        _PUTMODE[0] = False


def hinted(r, v, put=False):
    _PUTMODE[0] = put
    try:
        return _hinted(r, v)
    finally:
        _PUTMODE[0] = False


def _rewrite_setalias(x):
    """(set v ... (op a b .. v ..)) with v at operand index >= 2 of an inlined variadic operator that
    receives the assignment target as its destination hint: wrap that operand as (id v)."""
    if _is_quote(x):
        return x
    t = type(x)
    if t is Tup and not x.b and len(x.v) == 3 and x.v[0] is _SET and type(x.v[1]) is Sym:
        v = x.v[1]
        return Tup((x.v[0], v, _hinted(_rewrite_setalias(x.v[2]), v)), False)
    return _map_children(x, _rewrite_setalias)


def _alias_of(o, v):
    """is the value of operand o held in variable v's own slot?"""
    t = type(o)
    if o is v:
        return True
    if t is Tup and not o.b and o.v and type(o.v[0]) is Sym:
        h = o.v[0]
        if h in (_SET, Sym("var")) and len(o.v) == 3 and o.v[1] is v:
            return True
        if h in (Sym("do"), Sym("upscope"), Sym("let")) and len(o.v) >= 2:
            return _alias_of(o.v[-1], v)
    return False


_PUTMODE = [False]


def _hinted(r, v):
    """r is compiled with variable v as its destination hint.  If the form that finally receives the hint
    is an inlined operator that stores into the destination before it has read an operand held in v's own
    slot, wrap that *whole form* as (id form): it is then compiled as a call argument, without the hint,
    and nothing else about it changes (in particular its operands are still read as before, so this
    rewrite does not also neutralise `operand-read-late`)."""
    if type(r) is not Tup or r.b or not r.v or type(r.v[0]) is not Sym:
        return r
    h = r.v[0]
    if h is Sym("put"):
        # (set v (put ds k val)): the table is copied into v before k and val are read
        if _PUTMODE[0] and len(r.v) == 4 and (_alias_of(r.v[2], v) or _alias_of(r.v[3], v)):
            return Tup((_ID, r), False)
        return r
    if h in _INLINE_OPS:
        if not _PUTMODE[0] and len(r.v) >= 4:
            # arithmetic: dest := a0 op a1, then dest := dest op a_i (i >= 2)
            # comparison: dest := a0 cmp a1, then dest := a1 cmp a2 ... (a_i re-read for i >= 1)
            first = 2 if h in _CMP_OPS else 3
            if any(_alias_of(o, v) for o in r.v[first:]):
                return Tup((_ID, r), False)
        return r
    if h in _TAIL_LAST and len(r.v) > 1:
        return Tup(r.v[:-1] + (_hinted(r.v[-1], v),), False)
    if h in _TAIL_IF and len(r.v) >= 3:
        return Tup(r.v[:2] + tuple(_hinted(i, v) for i in r.v[2:]), False)
    if h is Sym("cond") or h is Sym("case"):
        return Tup((h,) + tuple(_hinted(i, v) for i in r.v[1:]), False)
    if h is Sym("and") or h is Sym("or"):
        return Tup((h,) + tuple(_hinted(i, v) for i in r.v[1:]), False)
    return r


def rewrite_lateread(x):
    ex = expand_updates(x)
    r = _rewrite_lateread(ex)
    return x if rtext(r) == rtext(ex) else r


def _rewrite_lateread(x):
    """In every operand list (call arguments, operator operands, tuple/array constructors, unquoted
    elements of a quasiquoted tuple): an operand whose value lives in a variable's own slot (a bare
    symbol, (set v ..), a do ending in one) and that is followed by a later non-atomic operand is
    wrapped as (id operand), so that its value is copied when the operand is evaluated."""
    if type(x) is Tup and not x.b and len(x.v) == 2 and x.v[0] is Sym("quasiquote"):
        return Tup((x.v[0], _qq_late(x.v[1], 0)), False)
    if _is_quote(x):
        return x
    t = type(x)
    if t is Tup and not x.b and x.v and type(x.v[0]) is Sym and x.v[0] in _NOWRAP_HEADS:
        h = x.v[0]
        if h is _SET and len(x.v) == 3 and type(x.v[1]) is Tup:
            # (set (ds k) v): ds and k are operands followed by v
            tgt = x.v[1]
            ops = _wrap_ops(list(tgt.v) + [x.v[2]])
            return Tup((h, Tup(ops[:-1], tgt.b), ops[-1]), False)
        if h is Sym("fn") or h is Sym("defn"):
            # do not touch parameter lists
            i = 1
            while i < len(x.v) and type(x.v[i]) is not Tup:
                i += 1
            return Tup(x.v[:i + 1] + tuple(_rewrite_lateread(j) for j in x.v[i + 1:]), False)
        if h in (Sym("def"), Sym("var")) and len(x.v) == 3:
            return Tup((h, x.v[1], _rewrite_lateread(x.v[2])), False)
        if h in (Sym("let"), Sym("if-let"), Sym("when-let"), Sym("loop"), Sym("seq")) and len(x.v) > 1 and type(x.v[1]) is Tup:
            b = x.v[1]
            if h in (Sym("loop"), Sym("seq")):
                nb = Tup([_rewrite_lateread(i) if type(i) is Tup and not i.b else i for i in b.v], b.b)
            else:
                nb = Tup([i if k % 2 == 0 else _rewrite_lateread(i) for k, i in enumerate(b.v)], b.b)
            return Tup((h, nb) + tuple(_rewrite_lateread(j) for j in x.v[2:]), False)
        if h in (Sym("each"), Sym("eachk"), Sym("eachp"), Sym("for"), Sym("forv")):
            return Tup((h, x.v[1]) + tuple(_rewrite_lateread(j) for j in x.v[2:]), False)
        if h is Sym("try") and len(x.v) == 3 and type(x.v[2]) is Tup:
            c = x.v[2]
            return Tup((h, _rewrite_lateread(x.v[1]), Tup((c.v[0],) + tuple(_rewrite_lateread(j) for j in c.v[1:]), False)), False)
        if h is Sym("with") and len(x.v) > 1 and type(x.v[1]) is Tup:
            b = x.v[1]
            nb = Tup((b.v[0],) + tuple(_rewrite_lateread(j) for j in b.v[1:]), b.b)
            return Tup((h, nb) + tuple(_rewrite_lateread(j) for j in x.v[2:]), False)
        return _map_children(x, _rewrite_lateread)
    if t is Tup and not x.b and x.v:
        head = x.v[0]
        return Tup([_rewrite_lateread(head)] + _wrap_ops(list(x.v[1:])), False)
    if t is Tup and x.b:
        return Tup(_wrap_ops(list(x.v)), True)
    if t is Arr:
        return Arr(_wrap_ops(list(x.v)))
    return _map_children(x, _rewrite_lateread)


_SETTERS = set(Sym(n) for n in "set var ++ -- += -= *= /= %=".split())
_TAILS = set(Sym(n) for n in "do upscope let".split())


def _aliases(o):
    """is the value of operand expression o represented by a variable's own slot?
    (a bare symbol, an assignment to a symbol, or a do/upscope/let whose last form is one)"""
    t = type(o)
    if t is Sym:
        return True
    if t is Tup and not o.b and o.v and type(o.v[0]) is Sym:
        h = o.v[0]
        if h in _SETTERS and len(o.v) >= 2 and type(o.v[1]) is Sym:
            return True
        if h in _TAILS and len(o.v) >= 2:
            return _aliases(o.v[-1])
    return False


def _wrap_ops(ops):
    out = []
    for i, o in enumerate(ops):
        if _aliases(o) and any(type(l) in (Tup, Arr, Struct, Tab) for l in ops[i + 1:]):
            out.append(Tup((_ID, _rewrite_lateread(o)), False))
        else:
            out.append(_rewrite_lateread(o))
    return out


def _qq_late(x, level):
    """inside a quasiquote: the unquoted elements of one tuple/array are operands of its constructor"""
    t = type(x)
    if t is Tup:
        v = x.v
        if not x.b and len(v) == 2 and type(v[0]) is Sym:
            if v[0] is Sym("unquote"):
                if level == 0:
                    return Tup((v[0], _rewrite_lateread(v[1])), False)
                return Tup((v[0], _qq_late(v[1], level - 1)), False)
            if v[0] is Sym("quasiquote"):
                return Tup((v[0], _qq_late(v[1], level + 1)), False)
        return Tup(_qq_ops(list(v), level), x.b)
    if t is Arr:
        return Arr(_qq_ops(list(x.v), level))
    if t is Struct:
        return Struct([(_qq_late(k, level), _qq_late(val, level)) for k, val in x.d.values()])
    if t is Tab:
        return Tab([(_qq_late(k, level), _qq_late(val, level)) for k, val in x.d.values()])
    return x


def _is_unq(o):
    return type(o) is Tup and not o.b and len(o.v) == 2 and o.v[0] is Sym("unquote")


def _qq_ops(ops, level):
    out = []
    for i, o in enumerate(ops):
        if level == 0 and _is_unq(o) and _aliases(o.v[1]) and any(type(l) in (Tup, Arr, Struct, Tab) for l in ops[i + 1:]):
            out.append(Tup((o.v[0], Tup((_ID, _rewrite_lateread(o.v[1])), False)), False))
        else:
            out.append(_qq_late(o, level))
    return out
