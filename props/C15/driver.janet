# C15 driver: run one GROUP of programs that differ only in the call route of one core function
# and report, for every program, what it did under each setting of the bytecode clean-up passes.
#
# item   = [ARGS PROG PROG ...]         (parsed by the batch runner, so every tuple carries a source position)
# ARGS   = a form evaluated (compiled once, called before every run) to the tuple of run-time arguments
# PROG   = (fn [g p0 .. p5] ...)        `g` receives the function under test as a first-class value
#          symbols written $name are replaced by the *value* of name before compiling (a function value in
#          head position, the way macros splice them in; needed for the (= nil x) fast paths of if/while)
# result = one field per PROG, separated by \x1f:
#          <outcome under mask 3> \x1e <mask 1> \x1e <mask 2> \x1e <mask 0>      ("=" when identical to mask 3)
# outcome = STEPS | TRACE | @ERRPOS
#          STEPS  one entry per resume of the fiber the program runs in: status:value (error messages -> <msg>)
#                 the last entry also shows the run-time arguments after the run (mutations made by `put`)
#          TRACE  the log written by the tracer `t`, by operator methods of the M tables and by fiber bodies
#          ERRPOS (column) of every frame of compiled test code on the stack when an error was raised
#
# The region between the two marker lines below is pasted verbatim into replay files (it must run on a plain
# janet without the prelude and without verif/ natives).

(use prelude)

# >>> support
(def log @[])
(defn t [i v] (array/push log i) v)

(defn show-num [x]
  (cond
    (not= x x) "nan"
    (= x math/inf) "inf"
    (= x math/-inf) "-inf"
    (and (= x 0) (< (/ 1 x) 0)) "-0"
    (string/format "%.17g" x)))

(defn show-into [x b seen]
  (def ty (type x))
  (defn items [xs] (var first true) (each v xs (if first (set first false) (buffer/push b " ")) (show-into v b seen)))
  (defn pairs-of [ds getter]
    # keys are ordered by their text (rendered with a copy of `seen`, so a key that contains the
    # structure itself terminates), then printed with the shared `seen`
    (def ks (sort (seq [k :keys ds] (def kb @"") (show-into k kb (table/clone seen)) [(string kb) k])
                  (fn [a c] (< (a 0) (c 0)))))
    (var first true)
    (each [_ k] ks
      (if first (set first false) (buffer/push b " "))
      (show-into k b seen)
      (buffer/push b " ")
      (show-into (getter ds k) b seen)))
  (case ty
    :nil (buffer/push b "nil")
    :boolean (buffer/push b (if x "true" "false"))
    :number (buffer/push b (show-num x))
    :string (buffer/format b "%j" x)
    :keyword (buffer/push b ":" x)
    :symbol (buffer/push b "'" x)
    :tuple (do (buffer/push b (if (= :brackets (tuple/type x)) "[" "(")) (items x)
             (buffer/push b (if (= :brackets (tuple/type x)) "]" ")")))
    :struct (do (buffer/push b "{") (pairs-of x in) (buffer/push b "}"))
    :function (buffer/push b "<function " (or (get (disasm x) :name) "anon") ">")
    :cfunction (buffer/push b "<cfunction>")
    :core/s64 (buffer/push b "s64:" (string x))
    :core/u64 (buffer/push b "u64:" (string x))
    (cond
      (and (= ty :table) (table/rawget x :c15m)) (buffer/push b "M" (string (table/rawget x :c15m)))
      (in seen x) (buffer/push b "#" (string (in seen x)))
      (do
        (def id (length seen))
        (put seen x id)
        (buffer/push b "#" (string id) "=")
        (case ty
          :array (do (buffer/push b "@[") (items x) (buffer/push b "]"))
          :buffer (buffer/format b "@%j" (string x))
          :table (do (buffer/push b "@{") (pairs-of x table/rawget) (buffer/push b "}")
                   (when (table/getproto x) (buffer/push b "^proto")))
          :fiber (buffer/push b "<fiber " (fiber/status x) ">")
          (buffer/push b "<" ty ">"))))))

(defn show [x] (def b @"") (show-into x b @{}) (string b))

(def method-names
  [:+ :r+ :- :r- :* :r* :/ :r/ :div :rdiv :mod :rmod :% :r% :& :r& :| :r| :^ :r^
   :<< :r<< :>> :r>> :>>> :r>>> :~ :compare :length])

(defn mkM
  ``A table whose operator methods log their call. ret = :num -> a method returns 1000+id,
  ret = :self -> it returns the table itself. hook (optional) runs inside every method.``
  [id ret &opt hook]
  (def self @{:c15m id})
  (each k method-names
    (put self k (fn [& xs]
                  (array/push log (string "M" id k "<" (string/join (map show xs) " ") ">"))
                  (if hook (hook))
                  (if (= ret :num) (+ 1000 id) self))))
  self)

(def M1 (mkM 1 :num))
(def M2 (mkM 2 :self))
(def S3 (int/s64 3))
(def S0 (int/s64 0))
(def U5 (int/u64 5))
(def NAN math/nan)
(def TUP '(10 20))
(def STR {:a 1 :b 2})
(defn call [f & xs] (f ;xs))
(defn clo [& xs] (array/push log (string "clo<" (show xs) ">")) [:clo ;xs])

(defn mkf
  "fiber operands (made afresh for every run)"
  [kind]
  (case kind
    :new (fiber/new (fn [&opt a]
                      (array/push log (string "f-start<" (show a) ">"))
                      (def b (yield [:y1 a]))
                      (array/push log (string "f-cont<" (show b) ">"))
                      [:ret b]))
    :susp (let [f (mkf :new)] (resume f :pre) f)
    :dead (let [f (fiber/new (fn [] :done))] (resume f) f)
    :err (let [f (fiber/new (fn [] (error [:boom])) :e)] (resume f) f)
    :newerr (fiber/new (fn [&opt a] (array/push log "f-raise") (error [:boom a])))
    :newerr-e (fiber/new (fn [&opt a] (array/push log "f-raise") (error [:boom a])) :e)
    (error "bad fiber kind")))

(def penv (table/setproto @{} (curenv)))
# a global variable: compiled code reaches it through a reference cell, not a register
(put penv 'X @{:ref @[nil]})

(defn subst
  "replace $name symbols by the value of name, keeping source positions"
  [form]
  (cond
    (and (symbol? form) (> (length form) 1) (= 36 (in form 0)))
    (let [e (in penv (symbol (string/slice form 1)))]
      (if (nil? e) (error (string "unknown $symbol " form)))
      (if (in e :ref) (in (in e :ref) 0) (in e :value)))
    (tuple? form)
    (let [items @[]]
      (each e form
        (if (= e '$PAD)
          (for i 0 260 (array/push items (tuple 'def (symbol "d" i) i)))   # 260 live locals
          (array/push items (subst e))))
      (def nt (if (= :brackets (tuple/type form)) (tuple/brackets ;items) (tuple ;items)))
      (tuple/setmap nt ;(tuple/sourcemap form)))
    (array? form) (map subst form)
    form))

(def set-passes (get (get (curenv) 'verif/opt-passes @{}) :value))

(defn errpos [fb]
  (def b @"")
  (each fr (debug/stack fb)
    (when (= (get fr :source) "c15")
      # every form of an item is on one line of the items file: the column identifies the position
      (buffer/push b "(" (string (get fr :source-column)) ")")))
  (string b))

(defn payload [st v]
  (if (and (= st :error) (or (bytes? v))) "<msg>" (show v)))

(defn exec
  "run compiled program f once; -> outcome text"
  [f argsf]
  (array/clear log)
  (put (in (in penv 'X) :ref) 0 5)
  (def args (argsf))
  (def fb (fiber/new (fn [&] (f ;args)) :a))
  (def b @"")
  (var n 0)
  (var going true)
  (var inp nil)
  (var pos "")
  (while going
    (def r (resume fb inp))
    (def st (fiber/status fb))
    (++ n)
    (set inp [:rv n])
    (set going (and (< n 4) (or (= st :pending) (= st :debug))))
    (if going
      (buffer/push b (string st) ":" (payload st r) " ")
      (do
        (when (= st :error) (set pos (errpos fb)))
        # the final value together with the arguments, so that shared identity is visible
        (buffer/push b (string st) ":" (if (and (= st :error) (bytes? r)) (string "<msg> " (show args)) (show [r args]))))))
  (string b " | " (string/join (map string log) " ") " | @" pos))

(defn run-prog
  "-> array of outcome texts, one per pass mask (3 1 2 0); only mask 3 when the switch is not available"
  [form argsf]
  (def form (subst form))
  (def out @[])
  (each m (if set-passes [3 1 2 0] [3])
    (if set-passes (set-passes m))
    (def c (compile form penv "c15"))
    (array/push out
                (if (function? c)
                  (exec (c) argsf)
                  "cerr:compile |  | @")))
  (if set-passes (set-passes 3))
  out)

(defn make-args [form]
  (def c (compile (subst form) penv "c15args"))
  (if (function? c) c (error (string "bad ARGS form: " (in c :error)))))
# <<< support

(batch-run
  (fn [item]
    (def argsf (make-args (in item 0)))
    (def fields @[])
    (for i 1 (length item)
      (def outs (run-prog (in item i) argsf))
      (def o3 (in outs 0))
      (array/push fields
                  (string/join (seq [j :range [0 (length outs)]]
                                 (if (and (> j 0) (= (in outs j) o3)) "=" (in outs j)))
                               "\x1e")))
    (string/join fields "\x1f")))
