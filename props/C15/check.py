#!/usr/bin/env python3
"""C15 -- compiler specialisations of core functions preserve behaviour.

For every function in the optimizer table of cfuns.c, every arity 0..6, every operand tuple of a bounded
alphabet (value x form), every call route and every position of the call, the program is compiled by the
real compiler under the four settings of the bytecode clean-up passes and executed; the outcome (value or
raise, signals, argument-evaluation / method-call trace, state of mutable arguments and variables) must
equal that of the same program with the call made through the function as a first-class value.
The space is in model.py, conventions and findings in NOTES.md.
"""
import os
import sys

sys.path.insert(0, os.path.join(os.path.dirname(os.path.abspath(__file__)), "..", "..", "engine", "mc"))
from core import *  # noqa: E402,F401

HERE = os.path.dirname(os.path.abspath(__file__))
sys.path.insert(0, HERE)
import model as M  # noqa: E402

DRIVER = os.path.join(HERE, "driver.janet")
MASKS = [3, 1, 2, 0]


# ------------------------------------------------------------------ outcomes

def split_outcome(o):
    """'STEPS | TRACE | @POS' -> (steps, trace, pos)"""
    body, _, pos = o.rpartition(" | @")
    steps, _, trace = body.rpartition(" | ")
    return steps, trace, pos


def status_of(steps):
    return steps.split(":", 1)[0].strip()


def diff_kind(ref, got):
    """None when the two outcomes agree (error positions are not compared between routes)."""
    rs, rt, _ = split_outcome(ref)
    gs, gt, _ = split_outcome(got)
    rst, gst = status_of(rs), status_of(gs)
    if rst == "cerr" or gst == "cerr":
        # convention: a call the compiler rejects (wrong number of arguments to a known function)
        # counts as "raises"; nothing has been evaluated, so no trace is compared
        if rst == gst:
            return None
        other = gs if rst == "cerr" else rs
        if status_of(other) == "error":
            return None
        return "raises" if gst == "cerr" else "returns"
    if rs != gs:
        r_err = rs.startswith("error:") or " error:" in rs
        g_err = gs.startswith("error:") or " error:" in gs
        if g_err and not r_err:
            return "raises"
        if r_err and not g_err:
            return "returns"
        if r_err and g_err:
            return "error-value"
        return "value"
    if rt != gt:
        return "trace"
    return None


def mask_diff_kind(o3, om):
    s3, t3, p3 = split_outcome(o3)
    sm, tm, pm = split_outcome(om)
    k = diff_kind(o3, om)
    if k:
        return k
    if status_of(s3) == "cerr" or status_of(sm) == "cerr":
        return None if status_of(s3) == status_of(sm) else "compile"
    if p3 != pm:
        return "error-position"
    return None


# ------------------------------------------------------------------ signatures

SAFE = {"+": "add", "-": "sub", "*": "mul", "/": "divide", "%": "rem", "<": "lt", ">": "gt", "<=": "lte",
        ">=": "gte", "=": "eq", "not=": "neq"}


def fname(f):
    """function name usable in a signature / file name"""
    return SAFE.get(f, f)


def classify(f, vals, ctx, route, kind, ref, got):
    """Map a route difference to a stable signature. Known root causes first."""
    rs, rt, _ = split_outcome(ref)
    gs, gt, _ = split_outcome(got)
    inline = route in M.INLINE_ROUTES
    # (set x (f .. x)): the destination register is written before a later operand (x itself) is read
    # (opreduce: operand i >= 2 is read after the first store; compreduce: operand i >= 1 of a chain of
    #  >= 3 is read again after the first comparison was stored; put: the key/value after the copy of ds)
    # operand-read-late first: tuples that also contain the assigned variable x (thorough: arity 4) differ because of v,
    # not because of x - a regression of the repaired set-alias defect still shows on the tuples without M3 and v
    if inline and f in M.VAROPS and "M3" in vals and "v" in vals and len(vals) >= 3 and \
            vals.index("M3") < max(i for i, v in enumerate(vals) if v == "v"):
        return "operand-read-late"
    if inline and ctx in M.HINT_CONTEXTS:
        first = None
        if f in M.VAROPS and len(vals) >= 3:
            first = 2
        elif f in M.COMPOPS and len(vals) >= 3:
            first = 1
        elif f == "put" and len(vals) == 3:
            first = 1
        if first is not None and "x" in vals[first:]:
            return "set-alias-operand"
    # inline unary minus is compiled as x * -1, the function computes 0 - x
    if inline and f == "-" and len(vals) == 1:
        v = vals[0]
        if v == "U5" and kind == "raises":
            return "unary-minus-inline-u64"
        if v == "0" and kind == "value" and gs.replace("-0", "0") == rs.replace("-0", "0"):
            return "unary-minus-inline-zero-sign"
        if v in ("M1", "M2", "M3") and kind == "trace":
            return "unary-minus-inline-method"
    # JOP_ERROR reads an 8-bit register field but the compiler emits it with a wide register
    if inline and f == "error" and len(vals) == 1 and ctx in ("far", "farset") and kind == "error-value":
        return "error-inline-far-register"
    # a bare variable operand is read when the instruction runs: an operator method called by an
    # earlier step of the same inlined reduction has changed it meanwhile
    if inline and f in M.VAROPS and "M3" in vals and "v" in vals and len(vals) >= 3:
        return "operand-read-late"
    return "%s:%s:%s" % (fname(f), route, kind)


# ------------------------------------------------------------------ replay files

def support_text():
    src = open(DRIVER).read()
    a = src.index("# >>> support")
    b = src.index("# <<< support")
    return src[a:b]


def replay_text(f, vals, argsform, progs, note):
    lines = ["# %s" % note,
             "# Each program is printed with its outcome: STEPS | TRACE | @error-positions.",
             "# The first program (ref) calls the function as a first-class value; the others must print the same",
             "# STEPS and TRACE. On the verification binary (vjanet) four outcomes are printed per program, one per",
             "# setting of (verif/opt-passes 3|1|2|0); they must be identical.",
             "", support_text(),
             "(def ARGS '%s)" % argsform,
             "(def argsf (make-args ARGS))",
             "(def progs ["]
    for name, text in progs:
        lines.append("  [%s '%s]" % (jdn(name), text))
    lines += ["  ])",
              "(each [name form] progs",
              "  (printf \"%s: %j\" name form)",
              "  (each o (run-prog form argsf) (print \"      => \" o)))",
              ""]
    return "\n".join(lines)


# ------------------------------------------------------------------ main

SEEN_SIGS = set()              # signatures already reported (or matched against known findings) in this run
MAX_PROGS_PER_ITEM = 24        # one worker item = some complete (pattern, context) groups of one case
FLUSH_PROGRAMS = 150000        # programs per batch (bounds memory, gives a time check between batches)


def main():
    chk = Check("C15", level="model_checking", description=__doc__)
    vjanet("fast")      # build now; the engine does not charge build time to the exploration budget
    tier = M.Tier(chk.quick)
    chk.rule("case = (function of the optimizer table, operand value tuple, form pattern L/P/T per position, "
             "context of the call, route); enumerated as full products of the alphabets in model.py, simplest "
             "first; every program is compiled under pass masks 3,1,2,0 and run in a fresh fiber; a case is "
             "compared with the program that differs only in making the call through the first-class function; "
             "states = operand tuples, transitions = programs, evaluations = program runs (programs x masks)")
    chk.assume("the first-class route (generic bytecode bodies of corelib.c called with pushed arguments) is the reference")
    chk.assume("a call rejected at compile time for its argument count is equivalent to raising at run time; "
               "no trace is compared for it")
    chk.assume("error messages are not compared; raised values that are not strings are")
    chk.assume("verif/opt-passes switches janet_bytecode_movopt / janet_bytecode_remove_noops through --wrap; "
               "the compiler is otherwise the one of /repo")

    only = chk.args.only
    secs = M.sections(tier)
    bounds = sorted(set(b for b, _, _, _ in secs))
    bound_names = {1: "arity<=2 + fixed-arity functions + aliasing + contexts", 2: "arity 3", 3: "arity 4..6"}
    completed = []
    samples = []
    budget_frac = 0.9

    for bound in bounds:
        if chk.out_of_time(budget_frac):
            chk.cap("bound %d (%s) not started: out of time" % (bound, bound_names[bound]))
            break
        bsecs = [s for s in secs if s[0] == bound]
        pending = []        # work units
        npend = 0
        aborted = False
        for idx, (_, sname, f, gen) in enumerate(bsecs):
            if only and only not in (sname, f, "%s/%s" % (sname, f)):
                continue
            units = list(work_units(sname, f, gen()))
            pending += units
            npend += sum(len(u[4]) for u in units)
            last = idx == len(bsecs) - 1
            if npend >= FLUSH_PROGRAMS or last:
                run_units(chk, pending, samples)
                pending, npend = [], 0
                if not last and chk.out_of_time(budget_frac):
                    chk.cap("bound %d (%s) incomplete: stopped after %s/%s" % (bound, bound_names[bound], sname, f))
                    aborted = True
                    break
        if pending:
            run_units(chk, pending, samples)
        if aborted:
            break
        completed.append(bound)
    for s in (samples[:1] + samples[len(samples) // 2:len(samples) // 2 + 1] + samples[-1:]):
        chk.sample(s)
    chk.cov["bound_completed"] = "; ".join("bound %d: %s" % (b, bound_names[b]) for b in completed) or "none"
    chk.cov["functions"] = len(M.ALL_FUNCS)
    chk.finish()


def work_units(sname, f, cases):
    """-> (section, f, vals, argsform, [(pattern, ctx, route, text)], first_of_case) ; a case with many
    programs is split into several units, each made of complete (pattern, ctx) groups"""
    pname = "%s/%s" % (sname, f)
    for (ff, vals, specs) in cases:
        if M.pointer_order(ff, vals):
            continue
        argsform = M.args_text(ff, vals)
        groups = {}
        for (pat, ctx, route) in specs:
            text = M.program(ff, vals, pat, ctx, route)
            if text is None:
                continue
            groups.setdefault((pat, ctx), []).append((pat, ctx, route, text))
        cur = []
        first = True
        for key, g in groups.items():
            if len(g) < 2:
                continue        # nothing to compare
            # app1 of a one-operand call is textually the same program as app
            seen = set()
            g = [p for p in g if not (p[3] in seen or seen.add(p[3]))]
            if cur and len(cur) + len(g) > MAX_PROGS_PER_ITEM:
                yield (pname, ff, vals, argsform, cur, first)
                first = False
                cur = []
            cur += g
        if cur:
            yield (pname, ff, vals, argsform, cur, first)


def well_formed(text, nprogs):
    fields = text.split("\x1f")
    if len(fields) != nprogs:
        return False
    for fld in fields:
        ms = fld.split("\x1e")
        if len(ms) != 4 or any(m != "=" and " | @" not in m for m in ms):
            return False
    return True


def run_units(chk, units, samples):
    if not units:
        return
    t_start = chk.elapsed()
    items = ["[%s %s]" % (u[3], " ".join(p[3] for p in u[4])) for u in units]
    chunk = max(8, min(200, len(items) // 64 + 1))
    res = run_batch("fast", DRIVER, items, chunk=chunk, timeout=120)
    # engine work-around: after a worker death the batch runner may accept a cut-off last line as a
    # result; a result with the wrong shape is therefore re-run alone before anything is concluded
    for i, ((status, text), u) in enumerate(zip(res, units)):
        if (status == "OK" and not well_formed(text, len(u[4]))) or status in ("TIMEOUT", "CRASH"):
            # a timeout of a whole chunk on a loaded machine is not a hang of the item: an item alone
            # needs milliseconds, so only a second failure with a generous limit counts
            res[i] = run_batch("fast", DRIVER, [items[i]], chunk=1, timeout=600)[0]
    confirmed = set()

    def confirm(i, text):
        """a difference is reported only if a fresh process reproduces the item's result exactly"""
        if i in confirmed:
            return
        again = run_batch("fast", DRIVER, [items[i]], chunk=1, timeout=600)[0]
        if again != ("OK", text):
            more = [run_batch("fast", DRIVER, [items[i]], chunk=1, timeout=600)[0] for _ in range(2)]
            if any(r[0] == "TIMEOUT" for r in [again] + more):
                raise HarnessError("re-running item %s alone timed out: %r" % (items[i][:200], [r[0] for r in [again] + more]))
            # The programs are deterministic (ASLR off, no clock, no threads) and the driver keeps nothing between
            # items, so an outcome that differs between the batch process and a fresh process, or between two fresh
            # processes, is a symptom of the tree under test (typically memory written through a stale pointer). It
            # has never been seen on the unchanged tree.
            kind = "between-fresh-processes" if len({again} | set(more)) > 1 else "batch-vs-fresh-process"
            chk.violation(sig="unstable-outcome:%s" % kind,
                          what="the same programs with the same arguments give different outcomes (%s): %s: %r vs %r" % (
                              kind, items[i][:300], text[:300], again[1][:300]),
                          replay_text="# run in a fresh process, and again after other items in one process: %s\n" % items[i][:2000])
        confirmed.add(i)
    stats = {}
    for ui, ((pname, f, vals, argsform, progs, first), (status, text)) in enumerate(zip(units, res)):
        st = stats.setdefault(pname, dict(cases=0, programs=0, compared=0, differing=0))
        if first:
            chk.add(states=1)
            st["cases"] += 1
        st["programs"] += len(progs)
        if status != "OK":
            if status in ("CRASH", "TIMEOUT"):
                chk.violation(sig="%s:%s" % (fname(f), status.lower()),
                              what="%s while running %s programs with arguments %s: %s" % (status, f, argsform, text[:300]),
                              replay_text=replay_text(f, vals, argsform, [(p[2] + "/" + p[1], p[3]) for p in progs],
                                                      "the interpreter died or hung on one of these programs"))
                st["differing"] += 1
                continue
            raise HarnessError("driver error in %s for item %s: %s" % (pname, argsform, text))
        fields = text.split("\x1f")
        if len(fields) != len(progs):
            raise HarnessError("driver returned %d fields for %d programs (%s)" % (len(fields), len(progs), pname))
        outs = {}
        for p, fld in zip(progs, fields):
            ms = fld.split("\x1e")
            if len(ms) != 4:
                raise HarnessError("driver returned %d pass settings (verif/opt-passes missing?)" % len(ms))
            o3 = ms[0]
            outs[(p[0], p[1], p[2])] = o3
            chk.add(transitions=1, evaluations=4)
            steps, trace, pos = split_outcome(o3)
            chk.outcome(steps + " | " + trace)
            # clean-up passes must not change behaviour nor the position reported for an error
            for mi in (1, 2, 3):
                if ms[mi] == "=":
                    continue
                k = mask_diff_kind(o3, ms[mi])
                if k is None:
                    continue
                st["differing"] += 1
                if "optpass:%s:%s" % (fname(f), k) not in SEEN_SIGS:
                    SEEN_SIGS.add("optpass:%s:%s" % (fname(f), k))
                    confirm(ui, text)
                chk.violation(
                    sig="optpass:%s:%s" % (fname(f), k),
                    what="clean-up passes change behaviour (%s): %s args %s; with all passes: %s ; with (verif/opt-passes %d): %s"
                         % (k, p[3], argsform, o3, MASKS[mi], ms[mi]),
                    replay_text=replay_text(f, vals, argsform, [(p[2] + "/" + p[1], p[3])],
                                            "needs the verification binary: outcomes under (verif/opt-passes 3|1|2|0) must be identical"),
                    replay_cmd="vjanet <file>  (build/<hash>/fast/vjanet)")
        for p in progs:
            pat, ctx, route, ptext = p
            if route == "ref":
                continue
            ref = outs.get((pat, ctx, "ref"))
            if ref is None:
                raise HarnessError("no reference program for %s %s %s" % (f, pat, ctx))
            got = outs[(pat, ctx, route)]
            k = diff_kind(ref, got)
            st["compared"] += 1
            if k is None:
                continue
            st["differing"] += 1
            reftext = [q[3] for q in progs if q[0] == pat and q[1] == ctx and q[2] == "ref"][0]
            sig = classify(f, vals, ctx, route, k, ref, got)
            if os.environ.get("C15_DUMP"):
                with open(os.environ["C15_DUMP"], "a") as df:
                    df.write("%s\t%s\t%s\t%s\t%s\t%s\t%s\n" % (sig, k, ctx, route, ptext, got, ref))
            if sig in SEEN_SIGS:
                chk.violation(sig=sig, what="")       # counted (or known), already reported with a replay
                continue
            SEEN_SIGS.add(sig)
            confirm(ui, text)
            chk.violation(
                sig=sig,
                what="route %s differs from the first-class route (%s) for %s arity %d in context %s: %s  args %s  => %s ;  "
                     "reference %s => %s" % (route, k, f, len(vals), ctx, ptext, argsform, got, reftext, ref),
                replay_text=replay_text(f, vals, argsform, [("ref", reftext), (route, ptext)],
                                        "route %s of %s must behave like the first-class route (difference: %s)" % (route, f, k)),
                replay_cmd="janet <file>")
    for pname, st in stats.items():
        chk.part(pname, **st)
        if os.environ.get("C15_TIMING"):
            sys.stderr.write("%-28s %s\n" % (pname, st))
    if os.environ.get("C15_TIMING"):
        sys.stderr.write("batch of %d items / %d programs: %.1fs (t=%.1fs)\n" % (
            len(items), sum(len(u[4]) for u in units), chk.elapsed() - t_start, chk.elapsed()))
    u = units[len(units) // 2]
    samples.append({"section": u[0], "args": u[3], "program": u[4][-1][3]})


if __name__ == "__main__":
    harness_guard(main)
