"""C15 -- the bounded space of programs and the call routes.

There is no independent evaluator here: the oracle of this property is differential (the route that
calls the function as a first-class value is the reference).  This file defines

  * the operand alphabets (value x form),
  * the routes (how the call is written) and the contexts (where the call stands),
  * the program text for (function, operands, form pattern, context, route),
  * the enumeration of the space, per section and per bound.

Everything is deterministic and ordered simplest-first.
"""
from itertools import product

# --------------------------------------------------------------------------------------------
# operands
#
# A *value* is a piece of Janet text that evaluates to the operand (a literal, a constant symbol
# defined by the driver, or a constructor expression that makes a fresh object for every run).
# A *form* says how the value reaches the call:
#   L  written in place (literal / constant symbol -> constant slot, immediates; constructor
#      expressions -> temporary slot)
#   P  function parameter (register, value unknown to the compiler)
#   T  (t i value): traced call, logs i when it is evaluated (temporary slot)
# Specials have a fixed text: local variable v, the assigned variable x, the global variable X,
# a mutating operand and a method table whose methods change v.

SPECIALS = {
    "x": "x",                       # the variable assigned by the `set` contexts
    "X": "X",                       # global variable (reference cell), assigned by `setg`
    "v": "v",                       # another local variable (read only by this operand)
    "vm": "(do (set v 50) (t {i} 1))",   # operand whose evaluation changes v
    "M3": "M3",                     # table whose operator methods log and set v to 50
}


def is_special(val):
    return val in SPECIALS


def operand_text(val, form, i):
    if val in SPECIALS:
        return SPECIALS[val].replace("{i}", str(i))
    if form == "L":
        return val
    if form == "P":
        return "p%d" % i
    if form == "T":
        return "(t %d %s)" % (i, val)
    raise ValueError(form)


# --------------------------------------------------------------------------------------------
# routes: how the call (f e0 .. en-1) is written.  `ref` is the reference.

def call_text(route, f, es):
    a = " ".join(es)
    sp = (" " + a) if es else ""
    if route == "ref":          # first-class: g is a parameter holding the function
        return "(g%s)" % sp
    if route == "inl":          # compiled call site: the specialiser sees the call
        return "(%s%s)" % (f, sp)
    if route == "fv":           # function *value* in head position (what macros splice in)
        return "($%s%s)" % (f, sp)
    if route == "app":          # (apply f [args])
        return "(apply %s [%s])" % (f, a)
    if route == "app1":         # (apply f e0 .. [en-1])
        if not es:
            return None
        return "(apply %s%s [%s])" % (f, "".join(" " + e for e in es[:-1]), es[-1])
    if route == "spl":          # (f ;[args])
        return "(%s ;[%s])" % (f, a)
    if route == "spl1":         # (f e0 ;[e1 ..])
        if not es:
            return None
        return "(%s %s ;[%s])" % (f, es[0], " ".join(es[1:]))
    if route == "spl2":         # (f e0 e1 ;[e2 ..]): two plain operands, then a splice (empty when the arity is 2)
        if len(es) < 2:
            return None
        return "(%s %s %s ;[%s])" % (f, es[0], es[1], " ".join(es[2:]))
    if route == "cal":          # through a generic caller (fn [f & xs] (f ;xs))
        return "(call %s%s)" % (f, sp)
    raise ValueError(route)


GENERIC_ROUTES = ["app", "app1", "spl", "spl1", "spl2", "cal"]     # the callee sees only values
INLINE_ROUTES = ["inl", "fv"]                              # the compiler sees the operands

# contexts: where the call stands.  {C} is the call, {V} the extra observed variables.
CONTEXTS = {
    "tail": "{C}",
    "val": "(def r {C}) (tuple r{V})",
    "drop": "{C} (tuple :d{V})",
    "set": "(tuple (set x {C}) x{V})",
    "if": "(if {C} :T :F)",
    # the value of the conditional is bound but never read: its stores are dead, the clean-up passes delete them and
    # must re-target the jumps around them
    "ifdead": "(def r (if {C} :T :F)) (tuple :d{V})",
    "while": "(var n 0) (while {C} (++ n) (if (>= n 2) (break))) (tuple n{V})",
    # a closure made in the loop body: the compiler throws the loop away and compiles it again as a
    # recursive function, the condition included; n is then an upvalue
    "whilec": "(var n 0) (while {C} (++ n) (def k n) ((fn [] k)) (if (>= n 2) (break))) (tuple n{V})",
    "up": "(tuple ((fn [] (set x {C}))) x{V})",       # operands and target are upvalues
    "upt": "((fn [] {C}))",
    "setg": "(tuple (set X {C}) X{V})",               # target is a global (reference cell)
    "far": "{C}",                                     # operands live in registers > 255
    "farset": "(tuple (set x {C}) x{V})",
}
SET_CONTEXTS = ("set", "up", "farset")      # contexts that declare x
HINT_CONTEXTS = ("set",)                    # x is a near local register: the destination hint is honoured


def program(f, vals, pattern, ctx, route):
    """-> program text, or None when the route does not exist for this arity."""
    n = len(vals)
    far = ctx in ("far", "farset")
    es = []
    qdefs = []
    for i, (v, fm) in enumerate(zip(vals, pattern)):
        e = operand_text(v, fm, i)
        if far and not is_special(v):
            qdefs.append("(def q%d %s)" % (i, e))
            e = "q%d" % i
        es.append(e)
    call = call_text(route, f, es)
    if call is None:
        return None
    uses_v = any(v in ("v", "vm", "M3") for v in vals)
    pre = []
    if far:
        pre.append("$PAD")
    if uses_v:
        pre.append("(var v 7)")
    if ctx in SET_CONTEXTS:
        pre.append("(var x 5)")
    if "M3" in vals:
        pre.append("(def M3 (mkM 3 :num (fn [] (set v 50))))")
    pre += qdefs
    body = CONTEXTS[ctx].replace("{C}", call).replace("{V}", " v" if uses_v else "")
    params = " ".join(["g"] + ["p%d" % i for i in range(n)])
    return "(fn [%s] %s)" % (params, " ".join(pre + [body]))


def args_text(f, vals):
    return "[%s]" % " ".join([f] + [("nil" if is_special(v) else v) for v in vals])


# --------------------------------------------------------------------------------------------
# alphabets

VAROPS = ["+", "-", "*", "/", "div", "mod", "%", "band", "bor", "bxor", "blshift", "brshift", "brushift"]
COMPOPS = ["<", ">", "<=", ">=", "=", "not="]
FIXED = ["bnot", "length", "cmp", "in", "get", "put", "next", "apply", "error", "yield", "debug",
         "resume", "cancel", "propagate"]
ALL_FUNCS = VAROPS + COMPOPS + FIXED      # the 33 entries of the optimizer table in cfuns.c

FIBERS = ["(mkf :new)", "(mkf :susp)", "(mkf :dead)", "(mkf :err)", "(mkf :newerr)", "(mkf :newerr-e)"]

LATIN3 = ["LLL", "PPP", "TTT", "LPT", "PTL", "TLP"]


def rot_patterns(n):
    """three patterns in which every position sees every form"""
    return ["".join("LPT"[(i + s) % 3] for i in range(n)) for s in range(3)]


def all_patterns(n):
    return ["".join(p) for p in product("LPT", repeat=n)]


class Tier:
    def __init__(self, quick):
        q = quick
        # ---- variadic arithmetic / bitwise (arity 0..2: full value x form product)
        self.va12 = ["1", "0", "-1", "127", "128", "-128", "-129", "1.5", "3e9", "nil", '"s"', "M1", "M2", "S3", "U5"]
        self.va3 = (["1", "0", "128", "-129", "1.5", "nil", "M1", "U5"] if q else self.va12)
        self.va4 = ["1", "128", "M1"] if q else ["1", "128", "1.5", "nil", "M1", "S3"]
        self.va5 = ["1", "M1"] if q else ["1", "128", "nil", "M1"]
        self.va6 = ["1", "M1"] if q else ["1", "128", "M1"]
        # ---- comparators
        self.vb12 = ["1", "0", "127", "128", "-128", "-129", "1.5", "NAN", "nil", "false", "true", '"s"', ":k", "S3", "U5", "M1"]
        self.vb3 = (["1", "128", "-129", "1.5", "nil", "S3", "NAN"] if q else self.vb12)
        self.vb4 = ["1", "128", "nil"] if q else ["1", "128", "1.5", "nil", "S3", "NAN"]
        self.vb5 = ["1", "128"] if q else ["1", "128", "nil", "S3"]
        self.vb6 = ["1", "128"] if q else ["1", "128", "nil"]
        # ---- contexts section
        self.vctx = ["1", "nil", "false", "M1"] if q else ["1", "128", "nil", "false", "M1", "S3"]
        self.vctx3 = ["1"] if q else ["1", "nil", "M1"]
        self.ctxs = ["val", "drop", "set", "if", "ifdead", "while", "whilec", "up", "upt", "setg", "far", "farset"]
        # ---- alias section
        self.valias = (["x", "v", "vm", "M3", "1"] if q else ["x", "v", "vm", "M3", "1", "128", "M2"])
        self.alias_max = 3
        self.valias4 = None if q else ["x", "v", "vm", "M3", "1"]
        self.quick = q


# --------------------------------------------------------------------------------------------
# the space.  A *case* = (function, operand values, [(pattern, ctx, route) ...]) ; every (pattern, ctx)
# present has exactly one "ref" program and at least one other route.

def routes_block(n, patterns_inline, pattern_generic, ctx="tail", inline_routes=("inl", "fv"),
                 generic_routes=GENERIC_ROUTES):
    specs = []
    for p in patterns_inline:
        specs.append((p, ctx, "ref"))
        for r in inline_routes:
            specs.append((p, ctx, r))
        if p == pattern_generic:
            for r in generic_routes:
                specs.append((p, ctx, r))
    if pattern_generic is not None and pattern_generic not in patterns_inline:
        specs.append((pattern_generic, ctx, "ref"))
        for r in generic_routes:
            specs.append((pattern_generic, ctx, r))
    return list(dict.fromkeys(specs))


def variadic_cases(f, tier, bound):
    """bound 1: arity 0..2 (full value x form product); bound 2: arity 3; bound 3: arity 4..6"""
    comp = f in COMPOPS
    if bound == 1:
        vals = tier.vb12 if comp else tier.va12
        for n in (0, 1, 2):
            for vs in product(vals, repeat=n):
                yield (f, vs, routes_block(n, all_patterns(n), "T" * n))
    elif bound == 2:
        vals = tier.vb3 if comp else tier.va3
        pats = LATIN3 if tier.quick else all_patterns(3)
        for vs in product(vals, repeat=3):
            yield (f, vs, routes_block(3, pats, "TTT"))
    elif bound == 3:
        for n, vals in ((4, tier.vb4 if comp else tier.va4), (5, tier.vb5 if comp else tier.va5),
                        (6, tier.vb6 if comp else tier.va6)):
            for vs in product(vals, repeat=n):
                yield (f, vs, routes_block(n, rot_patterns(n), "T" * n))


def fixed_value_space(f, tier):
    """operand value tuples for the fixed-arity functions (right arities)"""
    q = tier.quick
    if f == "bnot":
        for v in tier.va12:
            yield (v,)
    elif f == "length":
        for v in ['"ab"', '""', ":kw", "'sym", "TUP", "STR", "@[1 2]", "@{:a 1}", '@"xyz"', "1", "nil", "S3", "M1",
                  "(mkf :dead)"]:
            yield (v,)
    elif f == "cmp":
        for vs in product(tier.vb12, repeat=2):
            yield vs
    elif f in ("in", "get"):
        dss = ["TUP", "STR", "@[10 20]", "@{:a 1 :b false}", '"ab"', ":kw", "nil", "1", "S3", "M1", '@"ab"']
        keys = ["0", "1", "2", "-1", ":a", ":b", ":zz", "nil", "1.5", '"s"', ":+"]
        dfl = ["nil", ":d", "false", "M1"]
        if q:
            dss = ["TUP", "STR", "@[10 20]", "@{:a 1 :b false}", '"ab"', "nil", "S3"]
            keys = ["0", "2", "-1", ":a", ":b", ":zz", "nil"]      # :b holds false in the table operand
            dfl = ["nil", ":d", "false"]
        for vs in product(dss, keys):
            yield vs
        for vs in product(dss, keys, dfl):
            yield vs
    elif f == "put":
        dss = ["@[1 2]", "@{:a 1}", '@"ab"', "TUP", "STR", "nil", '"s"', "1"]
        keys = ["0", "1", "5", "-1", ":a", "nil", "1.5"]
        vals = [":v", "nil", "65", "300", "M1"]
        if q:
            dss = ["@[1 2]", "@{:a 1}", '@"ab"', "TUP", "nil"]
            keys = ["0", "5", "-1", ":a", "nil"]
            vals = [":v", "nil", "65"]
        for vs in product(dss, keys, vals):
            yield vs
    elif f == "next":
        dss = ["TUP", "STR", "@[]", "@[7 8]", "@{:a 1}", '"ab"', "nil", "1", "(mkf :new)", "M1"]
        keys = ["nil", "0", "1", ":a", ":zz", '"s"', "-1", "1.5"]
        for d in dss:
            yield (d,)
        for vs in product(dss, keys):
            yield vs
    elif f == "apply":
        fs = ["+", "tuple", "clo", ":a", "nil", "1", "<"]
        lasts = ["[]", "'(1 2)", "TUP", "@[1 2]", "@[]", "nil", "1", "STR", "'(1 2 3 4)"]
        if q:
            fs = ["+", "tuple", "clo", "nil", "<"]
            lasts = ["[]", "'(1 2)", "@[1 2]", "nil", "STR"]
        for f2 in fs:
            yield (f2,)
        for f2 in fs:
            for nm in range(0, 6):
                for last in lasts:
                    for mid in (["1", "M1"] if nm and not q else ["1"]):
                        mids = [mid if i % 2 == 0 else "2" for i in range(nm)]
                        yield tuple([f2] + mids + [last])
    elif f == "error":
        for v in [":k", "5", '"s"', "nil", "M1", "TUP", "false"]:
            yield (v,)
    elif f in ("yield", "debug"):
        yield ()
        for v in ["1", "nil", ":k", "M1", "false"]:
            yield (v,)
    elif f == "resume":
        fibs = FIBERS + ["nil", "1"]
        for fb in fibs:
            yield (fb,)
        for vs in product(fibs, ["5", "nil", ":k"]):
            yield vs
    elif f == "cancel":
        for vs in product(FIBERS + ["nil", "1"], [":c", '"s"', "nil"]):
            yield vs
    elif f == "propagate":
        for vs in product([":p", "1", "nil"], FIBERS + ["nil", "1"]):
            yield vs
    else:
        raise ValueError(f)


def fixed_cases(f, tier):
    """right-arity cases with form patterns, then every arity 0..6 with plain operands"""
    seen = set()
    for vs in fixed_value_space(f, tier):
        n = len(vs)
        seen.add(n)
        if n <= 2:
            pats = all_patterns(n)
        elif n == 3:
            pats = LATIN3
        else:
            pats = rot_patterns(n)
        yield (f, vs, routes_block(n, pats, "T" * n))
    # every arity 0..6, also the wrong ones (compile-time rejection vs run-time arity error)
    for n in range(0, 7):
        for base in ("1", "nil"):
            vs = tuple([base] * n)
            if n == 0 and base == "nil":
                continue
            yield (f, vs, routes_block(n, ["L" * n, "T" * n], "T" * n))


def context_cases(f, tier):
    """the call in non-tail positions: inline routes against the reference in the same position"""
    ctxs = tier.ctxs

    def specs_for(n, pats):
        out = []
        for c in ctxs:
            for p in pats:
                out.append((p, c, "ref"))
                out.append((p, c, "inl"))
        return out

    if f in VAROPS or f in COMPOPS:
        for n in (0, 1, 2):
            for vs in product(tier.vctx, repeat=n):
                yield (f, vs, specs_for(n, all_patterns(n)))
        for vs in product(tier.vctx3, repeat=3):
            yield (f, vs, specs_for(3, all_patterns(3)))
        # the (= nil x) / (not= nil x) fast paths of if and while need a function value in head position
        if f in ("=", "not="):
            nilvals = ["nil", "1", "false", "M1"]
            for vs in list(product(nilvals, repeat=2)) + [("nil", "nil", "nil"), ("nil", "1", "nil"), ("nil",)]:
                n = len(vs)
                sp = []
                for c in ("if", "ifdead", "while", "whilec", "val", "tail"):
                    for p in all_patterns(n) if n <= 2 else LATIN3:
                        sp.append((p, c, "ref"))
                        sp.append((p, c, "fv"))
                        sp.append((p, c, "inl"))
                yield (f, vs, sp)
    else:
        # fixed-arity functions: a thinned value space in every context
        space = list(fixed_value_space(f, tier))
        step = 1
        limit = 60 if tier.quick else 400
        if len(space) > limit:
            step = -(-len(space) // limit)
        for k in range(0, len(space), step):
            vs = space[k]
            n = len(vs)
            pats = ["L" * n, "P" * n, "T" * n] if n else [""]
            yield (f, vs, specs_for(n, pats))


def alias_cases(f, tier):
    """operands that are variables: the assigned variable itself, a variable changed by a later
    operand or by an operator method"""
    def specs_for(vs):
        n = len(vs)
        pats = ["L" * n]
        out = []
        for c in ("set", "up", "setg", "farset", "val", "tail"):
            vv = vs
            if c == "setg":
                vv = tuple("X" if v == "x" else v for v in vs)
            elif c in ("val", "tail"):
                if "x" in vs:
                    continue
            out.append((c, vv))
        return out, pats

    def emit(vs):
        ctxvs, pats = specs_for(vs)
        for c, vv in ctxvs:
            yield (f, vv, [(pats[0], c, "ref"), (pats[0], c, "inl")])

    if f in VAROPS or f in COMPOPS:
        arities = range(0, tier.alias_max + 1)
        for n in arities:
            for vs in product(tier.valias, repeat=n):
                if not any(is_special(v) for v in vs):
                    continue
                for c in emit(vs):
                    yield c
        if tier.valias4:
            for vs in product(tier.valias4, repeat=4):
                if not any(is_special(v) for v in vs):
                    continue
                for c in emit(vs):
                    yield c
    else:
        # fixed functions: put x into every position of a few plain tuples
        bases = {
            "bnot": [("1",)], "length": [('"ab"',)], "cmp": [("1", "2")],
            "in": [("TUP", "0"), ("TUP", "0", ":d")], "get": [("TUP", "0"), ("TUP", "5", ":d"), ("STR", ":a", ":d")],
            "put": [("@[1 2]", "0", ":v"), ("@{:a 1}", ":k", ":v")], "next": [("TUP",), ("TUP", "0")],
            "apply": [("tuple", "'(1 2)"), ("tuple", "1", "'(1 2)"), ("tuple", "1", "2", "'(1 2)")],
            "error": [(":k",)], "yield": [("1",)], "debug": [("1",)],
            "resume": [("(mkf :new)",), ("(mkf :new)", "5")], "cancel": [("(mkf :susp)", ":c")],
            "propagate": [(":p", "(mkf :err)")],
        }[f]
        for base in bases:
            n = len(base)
            for mask in range(1, 1 << n):
                for sv in ("x", "v"):
                    vs = tuple(sv if (mask >> i) & 1 else base[i] for i in range(n))
                    for c in emit(vs):
                        yield c


ORDER_FUNCS = ("<", ">", "<=", ">=", "cmp")


def pointer_order(f, vals):
    """True when the outcome would depend on the addresses of two distinct tables (janet orders
    reference types by address): such cases are not enumerated -- no oracle may depend on pointer order."""
    return f in ORDER_FUNCS and len(set(v for v in vals if v in ("M1", "M2", "M3"))) >= 2


def sections(tier):
    """-> list of (bound label, section name, function, generator)"""
    out = []
    for f in VAROPS + COMPOPS:
        out.append((1, "arity0-2", f, lambda f=f: variadic_cases(f, tier, 1)))
    for f in FIXED:
        out.append((1, "fixed", f, lambda f=f: fixed_cases(f, tier)))
    for f in ALL_FUNCS:
        out.append((1, "alias", f, lambda f=f: alias_cases(f, tier)))
    for f in ALL_FUNCS:
        out.append((1, "contexts", f, lambda f=f: context_cases(f, tier)))
    for f in VAROPS + COMPOPS:
        out.append((2, "arity3", f, lambda f=f: variadic_cases(f, tier, 2)))
    for f in VAROPS + COMPOPS:
        out.append((3, "arity4-6", f, lambda f=f: variadic_cases(f, tier, 3)))
    return out
