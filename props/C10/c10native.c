/* C10 helper native module (built at check time into build/C10/, loaded with (native ...)).
 *
 * (c10/resume fiber value ms) resumes `fiber` like `resume`, but under a CPU-time budget:
 * when `ms` milliseconds of process CPU time have elapsed a SIGPROF handler calls
 * janet_interpreter_interrupt(), the public API that makes the interpreter leave the running
 * fiber with the :interrupt signal at its next backward jump or call. The pending interrupt is
 * acknowledged (janet_interpreter_interrupt_handled) before returning to the caller, so the
 * driver itself is never interrupted. Returns a tuple [signal-number value fired?].
 *
 * Nothing in here touches interpreter internals: only functions exported in janet.h are used.
 */
#define _GNU_SOURCE
#include <janet.h>
#include <signal.h>
#include <string.h>
#include <errno.h>
#include <stdio.h>
#include <sys/time.h>
#include <sys/resource.h>
#include <sys/wait.h>
#include <unistd.h>

static JanetVM *g_vm = NULL;
static volatile sig_atomic_t g_armed = 0;
static volatile sig_atomic_t g_fired = 0;
static int g_installed = 0;

static void on_prof(int sig) {
    (void) sig;
    if (g_armed && !g_fired) {
        g_fired = 1;
        janet_interpreter_interrupt(g_vm);
    }
}

static void set_timer(int ms) {
    struct itimerval it;
    memset(&it, 0, sizeof(it));
    it.it_value.tv_sec = ms / 1000;
    it.it_value.tv_usec = (ms % 1000) * 1000;
    setitimer(ITIMER_PROF, &it, NULL);
}

static Janet c10_resume(int32_t argc, Janet *argv) {
    janet_fixarity(argc, 3);
    JanetFiber *fiber = janet_getfiber(argv, 0);
    int32_t ms = janet_getinteger(argv, 2);
    if (ms < 1) ms = 1;
    if (!g_installed) {
        struct sigaction sa;
        memset(&sa, 0, sizeof(sa));
        sa.sa_handler = on_prof;
        sigemptyset(&sa.sa_mask);
        sa.sa_flags = SA_RESTART;
        sigaction(SIGPROF, &sa, NULL);
        g_installed = 1;
    }
    g_vm = janet_local_vm();
    g_fired = 0;
    g_armed = 1;
    set_timer(ms);
    Janet out = janet_wrap_nil();
    JanetSignal sig = janet_continue(fiber, argv[1], &out);
    set_timer(0);
    g_armed = 0;
    int fired = g_fired;
    if (fired) janet_interpreter_interrupt_handled(g_vm);
    g_fired = 0;
    Janet tup[3];
    tup[0] = janet_wrap_integer((int32_t) sig);
    tup[1] = out;
    tup[2] = janet_wrap_boolean(fired);
    return janet_wrap_tuple(janet_tuple_n(tup, 3));
}

/* (c10/fork-call f cpu-seconds) runs (f) in a forked child whose CPU time is limited with
 * RLIMIT_CPU and waits for it. Used for operations that run inside C code and therefore cannot be
 * interrupted (peg/match on a grammar that loops). The child leaves with _exit((f) & 63).
 * Returns [:exit code] | [:signal number] (SIGXCPU = CPU limit reached). */
static Janet c10_fork_call(int32_t argc, Janet *argv) {
    janet_fixarity(argc, 2);
    JanetFunction *f = janet_getfunction(argv, 0);
    int32_t secs = janet_getinteger(argv, 1);
    if (secs < 1) secs = 1;
    fflush(NULL);
    pid_t pid = fork();
    if (pid < 0) janet_panic("fork failed");
    if (pid == 0) {
        struct rlimit rl;
        rl.rlim_cur = (rlim_t) secs;
        rl.rlim_max = (rlim_t) secs + 1;
        setrlimit(RLIMIT_CPU, &rl);
        Janet out = janet_wrap_nil();
        JanetFiber *fiber = NULL;
        JanetSignal sig = janet_pcall(f, 0, NULL, &out, &fiber);
        int code = 0;
        if (sig == JANET_SIGNAL_OK && janet_checkint(out)) code = janet_unwrap_integer(out) & 63;
        _exit(code);
    }
    int status = 0;
    while (waitpid(pid, &status, 0) < 0) {
        if (errno != EINTR) janet_panic("waitpid failed");
    }
    Janet tup[2];
    if (WIFEXITED(status)) {
        tup[0] = janet_ckeywordv("exit");
        tup[1] = janet_wrap_integer(WEXITSTATUS(status));
    } else {
        tup[0] = janet_ckeywordv("signal");
        tup[1] = janet_wrap_integer(WIFSIGNALED(status) ? WTERMSIG(status) : -1);
    }
    return janet_wrap_tuple(janet_tuple_n(tup, 2));
}

static const JanetReg cfuns[] = {
    {"c10/resume", c10_resume, "(c10/resume fiber value ms)\n\nResume a fiber under a CPU-time budget."},
    {"c10/fork-call", c10_fork_call, "(c10/fork-call f cpu-seconds)\n\nRun (f) in a CPU-limited forked child."},
    {NULL, NULL, NULL}
};

JANET_MODULE_ENTRY(JanetTable *env) {
    janet_cfuns(env, NULL, cfuns);
}
