#!/usr/bin/env python3
"""C10 - loading untrusted bytes or bytecode cannot corrupt memory.

Exhaustive fault enumeration (kernel K5). Seeds are valid images produced at run time by the real
`marshal` from a fixed list of values (props/C10/seeds.janet) that covers every lead byte of the
protocol. For every seed the check enumerates, completely:
  trunc   every proper prefix
  subst   every offset x every byte of a 42-byte boundary set (+ b-1, b+1)
  struct  every field located by a Python re-implementation of the reader (model.py): every
          variable-length integer, 64-bit size, reference index, flag word, lead byte, bytecode word,
          closure-bitset word, real, byte-run length skew  x  its boundary values
  pairs   (thorough) every pair of integer fields inside one fiber / frame / funcdef / funcenv header
  free    every byte string of length <= 2 (quick) / <= 3 (thorough) over a 40-byte alphabet
  asm     every node of 16 well-typed assembler descriptions x a menu of boundary values
Each input is loaded (unmarshal / asm) in the AddressSanitizer build and every accepted value goes
through the exercise battery (exercise.janet). Oracle: no sanitizer report, no signal, no abort, no
hang; a clean exit through janet's out-of-memory handler is counted separately (resource-exit).
"""
import hashlib
import os
import re
import shutil
import subprocess
import sys

HERE = os.path.dirname(os.path.abspath(__file__))
sys.path.insert(0, os.path.join(HERE, "..", "..", "engine", "mc"))
from core import *  # noqa
HERE = os.path.dirname(os.path.abspath(__file__))
sys.path.insert(0, HERE)
import model  # noqa

DRIVER = os.path.join(HERE, "driver.janet")
VARIANT = "asan"
ASAN = ("detect_leaks=0:abort_on_error=0:exitcode=99:allocator_may_return_null=1:handle_abort=1:"
        "detect_stack_use_after_return=0:max_allocation_size_mb=1024:hard_rss_limit_mb=6000:print_legend=0")
CHUNK = 300
DIAG_LIMIT = 6
ITEM_TIMEOUT = 90


# --------------------------------------------------------------------------
# set-up: header constants, native helper, seeds

def header_constants():
    """Flag values and sizes the reader depends on, read from the tree under test (fail closed)."""
    h = open(os.path.join(REPO, "src", "include", "janet.h")).read()
    out = {}
    for name in ("VARARG", "HASSYMBOLMAP", "HASNAME", "HASSOURCE", "HASDEFS", "HASENVS", "HASSOURCEMAP",
                 "STRUCTARG", "HASCLOBITSET"):
        m = re.search(r"#define JANET_FUNCDEF_FLAG_%s\s+(0x[0-9A-Fa-f]+)" % name, h)
        if not m:
            raise HarnessError("janet.h: JANET_FUNCDEF_FLAG_%s not found" % name)
        out["FUNCDEF_FLAG_" + name] = int(m.group(1), 16)
    m = re.search(r"#define JANET_FRAME_SIZE\s+(\d+)", h)
    if not m:
        raise HarnessError("janet.h: JANET_FRAME_SIZE not found")
    out["FRAME_SIZE"] = int(m.group(1))
    m = re.search(r"enum JanetOpCode \{(.*?)JOP_INSTRUCTION_COUNT", h, re.S)
    if not m:
        raise HarnessError("janet.h: enum JanetOpCode not found")
    nops = len(re.findall(r"\bJOP_[A-Z0-9_]+\s*,", m.group(1)))
    if not 40 <= nops <= 127:
        raise HarnessError("janet.h: implausible opcode count %d" % nops)
    model.set_funcdef_flags(out)
    return nops


def forged_selfref():
    """[(label, image)]: LB_FUNCTION images whose funcdef holds, as constant 0, a function that refers back to that
    same funcdef (LB_FUNCDEF_REF 0). outer / def / inner = environments announced by the outer function, used by
    the funcdef, announced by the inner function; inner environments are given inline or as references."""
    h = open(os.path.join(REPO, "src", "include", "janet.h")).read()
    hasenvs = int(re.search(r"#define JANET_FUNCDEF_FLAG_HASENVS\s+(0x[0-9A-Fa-f]+)", h).group(1), 16)
    ops = re.findall(r"\b(JOP_[A-Z0-9_]+)\s*,", re.search(r"enum JanetOpCode \{(.*?)JOP_INSTRUCTION_COUNT", h, re.S).group(1))
    ret, ldu = ops.index("JOP_RETURN"), ops.index("JOP_LOAD_UPVALUE")

    def i32(n):
        return bytes([0xCD, (n >> 24) & 255, (n >> 16) & 255, (n >> 8) & 255, n & 255])
    env_inline = bytes([0x00, 0x01, 0x2A])          # off-stack environment with one value, 42
    out = []
    for outer in range(3):
        for nd in range(3):
            for inner in range(3):
                for flagged in ((True,) if nd else (False, True)):
                    for inner_env in ("inline", "ref"):
                        if inner_env == "ref" and (inner == 0 or outer == 0):
                            continue
                        for code in ("ldu", "ret"):
                            if code == "ldu" and nd == 0:
                                continue
                            img = bytes([0xD7, outer]) + i32(hasenvs if flagged else 0) + bytes([1, 0, 0, 0, 1, 2])
                            if flagged:
                                img += bytes([nd])
                            img += bytes([0xD7, inner, 0xDC, 0x00])
                            img += (env_inline if inner_env == "inline" else bytes([0xDB, 0x00])) * inner
                            img += (bytes([ldu, 0, 0, 0]) if code == "ldu" else bytes([ret, 0, 0, 0])) + bytes([ret, 0, 0, 0])
                            img += bytes([0x00]) * nd
                            img += env_inline * outer
                            out.append(("selfref outer=%d def=%d inner=%d %s %s%s" % (outer, nd, inner, inner_env, code,
                                                                                     "" if flagged == bool(nd) else " flagged"), img))
    # abstract values nested inside abstract values (a channel whose only item is a channel ...): the reader must bound
    # the depth as it does for containers
    for n in (600, 1500, 60000):
        out.append(("nested-channels depth=%d" % n,
                    b"\xD9\xCF\x0Ccore/channel\0\0\x01\x01" + b"\xD9\xDA\0\0\0\x01\x01" * n + b"\x01"))
    return out


def build_native():
    src = os.path.join(HERE, "c10native.c")
    h = hashlib.sha256()
    for p in (src, os.path.join(REPO, "src", "include", "janet.h"), os.path.join(REPO, "src", "conf", "janetconf.h")):
        h.update(open(p, "rb").read())
    d = os.path.join(VERIF, "build", "C10")
    os.makedirs(d, exist_ok=True)
    out = os.path.join(d, "c10native-%s.so" % h.hexdigest()[:16])
    if not os.path.exists(out):
        tmp = out + ".%d.tmp" % os.getpid()
        r = subprocess.run(["gcc", "-O1", "-shared", "-fPIC", "-w", "-I%s/src/include" % REPO, "-I%s/src/conf" % REPO,
                            "-o", tmp, src], stdout=subprocess.PIPE, stderr=subprocess.STDOUT)
        if r.returncode != 0:
            sys.stderr.write("BUILD FAILED (exit 2)\n%s\n" % r.stdout.decode(errors="replace"))
            os._exit(2)
        os.rename(tmp, out)
    return out


def make_seeds(scratch):
    r = run(vjanet(VARIANT), [os.path.join(HERE, "seeds.janet")], timeout=120)
    if r.rc != 0:
        raise HarnessError("seed generation failed: %s" % r.describe())
    seeds = []
    for line in r.out.decode().split("\n"):
        if not line:
            continue
        name, hx = line.split("\t")
        seeds.append((name, bytes.fromhex(hx)))
    if len(seeds) < 100:
        raise HarnessError("only %d seeds" % len(seeds))
    path = os.path.join(scratch, "seeds.txt")
    with open(path, "w") as f:
        for name, img in seeds:
            f.write("%s\t%s\n" % (name, img.hex()))
    return seeds, path


def registry_names():
    text = open(os.path.join(HERE, "seeds.janet")).read()
    m = re.search(r"\(def registry-names\s+'\[([^\]]*)\]\)", text)
    if not m:
        raise HarnessError("registry-names not found in seeds.janet")
    return m.group(1).split()


def validate_reader(chk, seeds):
    """The Python reader must parse every seed exactly and re-encode it byte for byte."""
    parsed = []
    leads = set()
    nfields = 0
    for name, img in seeds:
        try:
            r = model.parse(img)
        except model.ParseError as e:
            raise HarnessError("reader model cannot parse seed %s: %s (%s)" % (name, e, img.hex()))
        if model.reencode(r) != img:
            raise HarnessError("reader model does not re-encode seed %s" % name)
        leads |= r.leads
        nfields += len(r.fields)
        parsed.append(r)
    unsafe = {model.LB_UNSAFE_CFUNCTION, model.LB_UNSAFE_POINTER, model.LB_THREADED_ABSTRACT, model.LB_POINTER_BUFFER}
    missing = [model.LEAD_NAMES[b] for b in model.ALL_LEAD_BYTES if b not in leads and b not in unsafe]
    if missing:
        raise HarnessError("seeds do not cover lead bytes %s" % missing)
    chk.part("seeds", count=len(seeds), bytes=sum(len(i) for _, i in seeds), fields=nfields,
             lead_bytes_covered=len(leads),
             lead_bytes_only_by_substitution="UNSAFE_CFUNCTION UNSAFE_POINTER THREADED_ABSTRACT POINTER_BUFFER")
    return parsed


# --------------------------------------------------------------------------
# items

class Case:
    __slots__ = ("family", "label", "item", "data", "asm", "field", "key")

    def __init__(self, family, label, item, data=None, asm=None, field="?", key=None):
        self.family, self.label, self.item, self.data, self.asm, self.field = family, label, item, data, asm, field
        self.key = key


def m_item(si, off, dl, repl):
    return "[:m %d %d %d %s]" % (si, off, dl, jdn(bytes(repl)))


def norm_field(name):
    return re.sub(r"\[\d+\]", "[]", name)


def field_map(r):
    """offset -> normalised name of the field of the seed that covers it."""
    fm = ["end"] * (len(r.d) + 1)
    for f in r.fields:
        for o in range(f.off, f.end):
            fm[o] = norm_field(f.name)
    return fm


def seed_cases(family, si, name, img, edits, fmap):
    out = []
    for label, off, dl, repl in edits:
        out.append(Case(family, "%s %s" % (name, label), m_item(si, off, dl, repl), model.apply_edit(img, off, dl, repl),
                        field=fmap[min(off, len(fmap) - 1)], key=(si, off, dl, bytes(repl))))
    return out


def asm_field(path):
    """last keyword on the path: the assembler field that was replaced"""
    if path is None:
        return "asm:scalar"
    kws = re.findall(r":([A-Za-z-]+)", path)
    return "asm:" + (kws[-1] if kws else "root")


ASM_VALUES = ["nil", "true", "-1", "0", "1", "2", "127", "128", "255", "256", "32767", "32768", "65535", "65536",
              "8388607", "8388608", "16777215", "16777216", "2147483647", "-2147483648", "-8388609", "1.5", "1e100",
              ":kw", ":l1", ":upvalue", "sym", "a", "\"str\"", "[]", "[1]", "()", "(x)", "(ret 0)", "(ldi 0 1 2 3)",
              "@[]", "{}", "@{}", "[-1]", "[0 1 2 3 4 5 6 7 8 9]", ":c10/delete", ":c10/dup"]
ASM_SCALARS = ["nil", "true", "0", "-1", "1.5", "\"\"", "\"str\"", ":kw", "sym", "[]", "()", "@[]", "{}", "@{}",
               "{:bytecode nil}", "{:bytecode []}", "{:bytecode [()]}", "{:bytecode [(ret 0)]}", "{:bytecode [(retn)] :arity -1}",
               "{:bytecode [(retn)] :sourcemap [()]}", "{:bytecode [(retn)] :symbolmap [()]}",
               "{:bytecode [(retn)] :environments [0]}", "{:bytecode [(retn)] :environments [-1]}",
               "{:bytecode [(retn)] :closures [{}]}", "{:bytecode [(retn)] :closures [1]}",
               "{:bytecode [(retn)] :slots [1]}", "{:bytecode [(retn)] :slots [[1]]}", "{:bytecode [(retn)] :constants 1}",
               "{:bytecode [(jmp 0)]}", "{:bytecode [(jmp -1)]}", "{:bytecode [(jmp 1)]}",
               "@{:bytecode @[(ldi 0 1) (ret 0)] :arity 2147483647}", "{:bytecode [(ret 70000)]}",
               "{:bytecode [(ldi 255 1) (ret 255)]}", "{:bytecode [(ldi 256 1) (retn)]}"]


def asm_cases():
    r = run(vjanet(VARIANT), [os.path.join(HERE, "asmlist.janet")], timeout=120)
    if r.rc != 0:
        raise HarnessError("asm template listing failed: %s" % r.describe())
    ntpl = 0
    paths = []
    for line in r.out.decode().split("\n"):
        parts = line.split("\t")
        if parts[0] == "T":
            if parts[2] != "ok":
                raise HarnessError("asm template %s is not accepted unmutated" % parts[1])
            ntpl += 1
        elif parts[0] == "P":
            paths.append((int(parts[1]), parts[2]))
    cases = []
    for ti in range(ntpl):
        cases.append(Case("asm-base", "template %d unmutated" % ti, "[:am %d () :c10/none]" % ti, None, (ti, "()", None),
                          field="asm:unmutated"))
    for ti, path in paths:
        for v in ASM_VALUES:
            if path == "()" and v in (":c10/delete", ":c10/dup"):
                continue
            cases.append(Case("asm", "template %d path %s := %s" % (ti, path, v), "[:am %d %s %s]" % (ti, path, v), None,
                              (ti, path, v), field=asm_field(path)))
    for v in ASM_SCALARS:
        cases.append(Case("asm", "asm %s" % v, "[:asm %s]" % v, None, (None, None, v), field="asm:scalar"))
    return cases, ntpl, len(paths)


# --------------------------------------------------------------------------
# running and classifying

class Ctx:
    pass


def batch_env(ctx, trace=False):
    # batches do not symbolize (a report costs ~1 s of llvm-symbolizer); the isolated re-runs do
    e = {"ASAN_OPTIONS": ASAN + (":symbolize=1" if trace else ":symbolize=0"), "C10_SEEDS": ctx.seedfile,
         "C10_NATIVE": ctx.native}
    if trace:
        e["C10_TRACE"] = "1"
    return e


FRAME_RE = re.compile(r"^\s*#(\d+) 0x[0-9a-f]+ in (\S+) (\S+)", re.M)


def classify_stderr(rc, timed_out, err):
    """-> (class, step_class, detail, step). class: memory-error | abort | hang | oom | rss | none.
    Only class and step go into signatures: the sanitizer's error kind and the faulting function depend
    on what a wild pointer happens to hit, so they are reported in the text but never decide."""
    text = err.decode(errors="replace")
    steps = re.findall(r"^C10-STEP (\S+)", text, re.M)
    step = steps[-1] if steps else "start"
    step_class = re.sub(r"/.*", "", step)
    if timed_out:
        return "hang", step_class, "no result after %ds in step %s" % (ITEM_TIMEOUT, step), step
    m = re.search(r"ERROR: AddressSanitizer: ([A-Za-z-]+)", text)
    if m:
        kind = m.group(1)
        if kind in ("requested", "allocation-size-too-big", "out-of-memory", "calloc-overflow"):
            return "oom", step_class, "sanitizer allocator limit", step
        if kind == "attempting":
            mm = re.search(r"attempting (double-free|free on address which was not malloc)", text)
            kind = "double-free" if mm and mm.group(1) == "double-free" else "bad-free"
        if kind == "SEGV":
            acc = re.search(r"caused by a (READ|WRITE) memory access", text)
            kind = "SEGV-" + (acc.group(1).lower() if acc else "unknown")
            if "zero page" in text:
                kind += "-null"
        body = text[m.start():]
        frames = FRAME_RE.findall(body)
        top = " <- ".join(f[1] for f in frames[:5])
        msg = ""
        if kind == "ABRT":
            mm = re.search(r"janet internal error[^\n]*", text)
            msg = " (" + mm.group(0) + ")" if mm else ""
        return ("abort" if kind == "ABRT" else "memory-error"), step_class, \
            "%s in step %s%s; frames: %s" % (kind, step, msg, top), step
    mm = re.search(r"^C10-CHILD-SIGNAL (-?\d+)", text, re.M)
    if mm:
        return "memory-error", step_class, "forked peg child killed by signal %s" % mm.group(1), step
    if "hard rss limit exhausted" in text or "soft rss limit exhausted" in text:
        return "rss", step_class, "rss limit", step
    if "janet out of memory" in text:
        mm = re.search(r"(\S+):(\d+) - janet out of memory", text)
        return "oom", step_class, (mm.group(0) if mm else "janet out of memory"), step
    if rc is not None and rc < 0:
        return "memory-error", step_class, "killed by signal %d in step %s" % (-rc, step), step
    if rc not in (0, None):
        tail = text[-300:].replace("\n", " | ")
        return "abort", step_class, "process exited with status %d in step %s: %s" % (rc, step, tail), step
    return "none", step_class, "", step


def run_single(ctx, item, trace=True):
    d = mktmp()
    try:
        ip, op = os.path.join(d, "i.jdn"), os.path.join(d, "o.txt")
        with open(ip, "w") as f:
            f.write(item + "\n")
        r = run(vjanet(VARIANT), [DRIVER, ip, op], env=batch_env(ctx, trace), timeout=ITEM_TIMEOUT)
        out = ""
        if os.path.exists(op):
            out = open(op, errors="replace").read()
        return r, out
    finally:
        shutil.rmtree(d, ignore_errors=True)


BAD = ("memory-error", "abort", "hang")


def diagnose(ctx, case, batch_text, status):
    """Re-run one suspect item alone with step tracing. The death of the batch process is the first
    observation; one isolated failure confirms it (a timeout needs two). -> (class, step_class, detail)"""
    r1, o1 = run_single(ctx, case.item)
    c1 = classify_stderr(r1.rc, r1.timed_out, r1.err)
    if c1[0] in ("oom", "rss"):
        return c1[:3]
    if c1[0] in BAD and c1[0] != "hang" and status == "CRASH":
        return c1[:3]
    r2, o2 = run_single(ctx, case.item)
    c2 = classify_stderr(r2.rc, r2.timed_out, r2.err)
    if c1[0] in BAD and c2[0] in BAD:
        if c1[:2] == c2[:2]:
            return c1[:3]
        return ("memory-error" if "memory-error" in (c1[0], c2[0]) else c1[0]), "unstable", \
            "two isolated runs failed differently: %s / %s" % (c1[2], c2[2])
    if c1[0] in BAD or c2[0] in BAD:
        c = c1 if c1[0] in BAD else c2
        return c[0], "flaky", "failed in one of two isolated runs: %s" % c[2]
    # completes alone: what did the batch process say when it died?
    cb = classify_stderr(None, False, batch_text.encode(errors="replace"))
    if cb[0] in BAD:
        return cb[0], "batch-only", "failed inside its batch but not alone: %s" % cb[2]
    return "none", c1[1], ""


def outcome_key(text):
    return text.split(" |", 1)[0]


class Tally:
    def __init__(self):
        self.groups = {}       # sig -> list of (case, cls, detail)
        self.resource = {}     # detail -> count
        self.seen_inputs = set()
        self.anomalies = []
        self.oom_keys = set()  # single edits (seed, off, dellen, repl) that alone end in a resource exit


def run_cases(chk, ctx, tally, family, cases):
    """Run one family; returns stats dict."""
    if not cases:
        return
    # de-duplicate identical inputs across the whole run (states = distinct inputs)
    todo = []
    dup = 0
    for c in cases:
        key = c.data if c.data is not None else c.item.encode()
        if key in tally.seen_inputs:
            dup += 1
            continue
        tally.seen_inputs.add(key)
        todo.append(c)
    t_start = chk.elapsed()
    res = run_batch(VARIANT, DRIVER, [c.item for c in todo], env=batch_env(ctx), chunk=CHUNK, timeout=60)
    st = dict(items=len(cases), duplicates=dup, run=len(todo), accepted=0, rejected=0, crash=0, resource_exit=0, hang=0,
              interrupted=0, slow_not_hang=0)
    suspects = []
    for c, (status, text) in zip(todo, res):
        chk.add(evaluations=1, transitions=1, states=1)
        if status == "OK":
            if text.startswith("A "):
                st["accepted"] += 1
                if text.endswith(" |I"):
                    st["interrupted"] += 1
                chk.outcome(outcome_key(text))
            elif text.startswith("R "):
                st["rejected"] += 1
                chk.outcome(outcome_key(text), nontrivial=False)
            else:
                tally.anomalies.append((c, status, text))
        elif status == "ERR":
            tally.anomalies.append((c, status, text))
        else:
            suspects.append((c, status, text))
    def diag(sus):
        c, status, text = sus
        if status == "CRASH" and "rc=1 " in text and "janet out of memory" in text and "ERROR: AddressSanitizer" not in text:
            mm = re.search(r"(\S+):(\d+) - janet out of memory", text)
            return "oom", "", (mm.group(0) if mm else "janet out of memory")
        return diagnose(ctx, c, text, status)

    # Every dead batch item is re-run alone to learn the step it died in. In the quick tier at most
    # DIAG_LIMIT items per mutated field are re-run once a failure of that field has been confirmed; the
    # remaining deaths on the same field are counted under the first confirmed signature of that field.
    limit = DIAG_LIMIT if chk.quick else None
    diags = [None] * len(suspects)
    by_field = {}
    for idx, sus in enumerate(suspects):
        by_field.setdefault(sus[0].field, []).append(idx)
    first_bad = {}
    cursor = {f: 0 for f in by_field}
    while True:
        todo_idx = []
        for f, idxs in by_field.items():
            if cursor[f] >= len(idxs):
                continue
            if limit is None:
                take = idxs[cursor[f]:]
            elif f not in first_bad or cursor[f] < limit:
                take = idxs[cursor[f]:cursor[f] + limit]
            else:
                continue
            cursor[f] += len(take)
            todo_idx += take
        if not todo_idx:
            break
        for idx, dg in zip(todo_idx, pmap(lambda i: diag(suspects[i]), todo_idx)):
            diags[idx] = dg
            if dg[0] in BAD and suspects[idx][0].field not in first_bad:
                first_bad[suspects[idx][0].field] = dg
    # the deaths that were not re-run alone: the tail of the batch worker's stderr must itself show a
    # sanitizer error or a fatal signal; anything less clear is re-run after all
    unclear = []
    for idx, sus in enumerate(suspects):
        if diags[idx] is None:
            m = re.search(r"rc=(-?\d+) timed_out=(\w+)", sus[2])
            rc = int(m.group(1)) if m else None
            cb = classify_stderr(rc, sus[1] == "TIMEOUT", sus[2].encode(errors="replace"))
            report_seen = any(k in sus[2] for k in ("ERROR: AddressSanitizer", "SUMMARY: AddressSanitizer",
                                                    "Shadow bytes around the buggy address"))
            if (rc == 99 and report_seen) or (rc is not None and rc < 0):
                fb = first_bad[sus[0].field]
                diags[idx] = (fb[0], fb[1], fb[2] + " (this input was not re-run alone: quick tier limit per field)")
                st["not_rerun_alone"] = st.get("not_rerun_alone", 0) + 1
            else:
                unclear.append(idx)
    for idx, dg in zip(unclear, pmap(lambda i: diag(suspects[i]), unclear)):
        diags[idx] = dg
    for (c, status, text), dg in zip(suspects, diags):
        cls, stepc, detail = dg
        if cls in ("oom", "rss"):
            st["resource_exit"] += 1
            if c.key is not None:
                tally.oom_keys.add(c.key)
            tally.resource[detail] = tally.resource.get(detail, 0) + 1
            chk.outcome("resource-exit", nontrivial=False)
        elif cls == "none":
            # died or timed out inside the batch but completes alone: only legal for a batch-level timeout
            if status == "TIMEOUT":
                st["slow_not_hang"] += 1
            else:
                raise HarnessError("item %s: batch process died (%s) without a sanitizer report, and the item completes "
                                   "alone" % (c.item[:200], text[-600:]))
        else:
            st["hang" if cls == "hang" else "crash"] += 1
            full = "%s|%s|%s" % (c.field, stepc, cls)
            chk.outcome("violation:" + full)
            tally.groups.setdefault(full, []).append((c, cls, detail))
    st["wall_s"] = round(chk.elapsed() - t_start, 1)
    chk.part(family, **st)
    return st


# --------------------------------------------------------------------------
# reporting

def janet_string(b):
    return jdn(bytes(b))


def replay_text(ctx, case):
    ex = open(os.path.join(HERE, "exercise.janet")).read()
    head = ["# How to run: <sanitizer build of janet> this-file   (the check used: %s)" % vjanet(VARIANT),
            "# With the stock binary (/repo/_build/janet this-file) an out-of-bounds access may stay silent.",
            "# case: %s" % case.label.replace("\n", " "),
            "(def lookup (let [t @{}] (each n '[%s] (put t n ((root-env n) :value))) (put t 'c10/regtable @{:reg 1}) t))"
            % " ".join(ctx.registry),
            "(def rev (invert lookup))",
            "(setdyn :c10-trace true)", ""]
    body = [ex, ""]
    if case.data is not None:
        body += ["(def image %s)" % janet_string(case.data),
                 "(def make (fn [&opt img] (unmarshal (or img image) lookup)))"]
    else:
        ti, path, v = case.asm
        body.append(open(os.path.join(HERE, "asmlib.janet")).read())
        if ti is None:
            body.append("(def make (fn [&opt img] (if img (unmarshal img lookup) (asm '%s))))" % v)
        elif v is None:
            body.append("(def make (fn [&opt img] (if img (unmarshal img lookup) (asm (asm-template %d)))))" % ti)
        else:
            body.append("(def make (fn [&opt img] (if img (unmarshal img lookup) "
                        "(asm (asm-replace (asm-template %d) '%s '%s)))))" % (ti, path, v))
    body += ["(print (exercise make (fn [v] (marshal v rev))))", "(exercise-done)",
             "(print \"finished without a crash in this build\")", ""]
    return "\n".join(head + body)


FAMILY_RANK = {"baseline": 0, "struct": 1, "trunc": 2, "subst": 3, "pairs": 4, "free": 5, "forged": 5, "asm-base": 6, "asm": 7}


def report(chk, ctx, tally):
    sigs = sorted(tally.groups)
    reps = {}
    for sig in sigs:
        lst = tally.groups[sig]
        lst.sort(key=lambda t: (FAMILY_RANK.get(t[0].family, 9), len(t[0].data) if t[0].data is not None else len(t[0].item),
                                t[0].label))
        reps[sig] = (lst[0], replay_text(ctx, lst[0][0]))

    def confirm(sig):
        """the stand-alone replay must fail in the sanitizer build"""
        if (chk.prop, sig) in chk.known:
            return None
        d = mktmp()
        try:
            p = os.path.join(d, "replay.janet")
            with open(p, "w") as f:
                f.write(reps[sig][1])
            rr = run(vjanet(VARIANT), [p], env={"ASAN_OPTIONS": ASAN + ":symbolize=0"}, timeout=ITEM_TIMEOUT)
            c = classify_stderr(rr.rc, rr.timed_out, rr.err)
            return c[0] in BAD
        finally:
            shutil.rmtree(d, ignore_errors=True)

    confirmed = dict(zip(sigs, pmap(confirm, sigs)))
    for sig in sigs:
        lst = tally.groups[sig]
        (case, cls, detail), text = reps[sig]
        fams = {}
        for t in lst:
            fams[t[0].family] = fams.get(t[0].family, 0) + 1
        what = ("%s: %s. Minimal case: [%s] %s%s. %d inputs with this signature (%s). Stand-alone replay %s." % (
            cls, detail, case.family,
            case.label, (" image=" + case.data.hex()) if case.data is not None and len(case.data) <= 80 else "",
            len(lst), ", ".join("%s %d" % kv for kv in sorted(fams.items())),
            "reproduces it" if confirmed[sig] else "did NOT reproduce it (needs the budgeted helper or the batch history)"))
        for _ in lst:
            chk.violation(sig, what, replay_text=text, replay_cmd="%s <this file>" % vjanet(VARIANT))
    if tally.anomalies:
        c, status, text = tally.anomalies[0]
        raise HarnessError("%d driver anomalies, first: item %s -> %s %s" % (len(tally.anomalies), c.item[:200], status, text[:300]))


# --------------------------------------------------------------------------

def main():
    chk = Check("C10", level="fault_enumeration")
    chk.rule("seeds = images made at run time by the real marshal from a fixed list of values covering every lead byte; "
             "for every seed: every proper prefix, every offset x 42 boundary bytes (+-1 of the original), every field "
             "located by an independent Python reader (var-ints, 64-bit sizes, reference indices, flag words with every bit "
             "toggled, lead bytes x all 33 lead bytes, bytecode words x every opcode and operand extremes, closure bitset, "
             "NaN-boxed reals, length/content skew) x its boundary values, (thorough) pairs of header integers; all byte "
             "strings up to length 2/3 over 40 bytes; every node of 16 assembler descriptions x 42 replacement values. "
             "Every input is loaded in the ASan build and every accepted value is printed, hashed, compared, marshalled "
             "again, walked, called/resumed/matched with 4 argument tuples under a CPU budget, and collected. "
             "states = distinct inputs; an outcome = the driver's summary line (type, per-call result codes) or the "
             "normalised rejection message.")
    chk.assume("AddressSanitizer (clang, -O1) reports every out-of-object access that matters; a clean process exit through "
               "JANET_OUT_OF_MEMORY / the sanitizer allocator limit (1 GB per allocation) on a forged size is counted as "
               "resource-exit, not as a violation; mutated bytecode may loop: calls run under a 20 ms CPU budget enforced "
               "with janet_interpreter_interrupt (public API) from a helper native module, an interrupted call is legal; "
               "the registry offered to unmarshal holds only harmless functions (%s)" % " ".join(registry_names()))
    ctx = Ctx()
    nops = header_constants()
    ctx.native = build_native()
    ctx.registry = registry_names()
    scratch = mktmp()
    tally = Tally()
    only = chk.args.only
    # replay files of earlier runs of this property are stale by definition
    rd = os.path.join(OUT_ROOT, "replays")
    if os.path.isdir(rd):
        for f in os.listdir(rd):
            if f.startswith("C10_"):
                os.unlink(os.path.join(rd, f))
    try:
        seeds, ctx.seedfile = make_seeds(scratch)
        parsed = validate_reader(chk, seeds)
        fmaps = [field_map(r) for r in parsed]
        order = sorted(range(len(seeds)), key=lambda i: (len(seeds[i][1]), seeds[i][0]))
        nbytes = sum(len(s[1]) for s in seeds)
        completed = []

        def want(f):
            return only is None or only == f

        def groups_of(limit):
            """seed indices in ascending size, grouped so that one group holds about `limit` image bytes"""
            out, g, n = [], [], 0
            for i in order:
                g.append(i)
                n += len(seeds[i][1])
                if n >= limit:
                    out.append(g)
                    g, n = [], 0
            if g:
                out.append(g)
            return out

        # 0. the unmutated seeds must be accepted and survive the battery
        base = [Case("baseline", "%s unmutated" % seeds[i][0], m_item(i, 0, 0, b""), seeds[i][1], field="unmutated")
                for i in order]
        st = run_cases(chk, ctx, tally, "baseline", base)
        if st["accepted"] + st["crash"] + st["hang"] != len(base):
            raise HarnessError("unmutated seeds were not all accepted: %s" % st)

        # 1. truncations
        if want("trunc"):
            cases = []
            for i in order:
                cases += seed_cases("trunc", i, seeds[i][0], seeds[i][1],
                                    [("truncated to %d" % off, off, dl, rp) for _, off, dl, rp in model.mutations_trunc(seeds[i][1])],
                                    fmaps[i])
            run_cases(chk, ctx, tally, "trunc", cases)
            completed.append("every truncation of %d seeds" % len(seeds))

        # 2. free byte strings
        if want("free"):
            maxlen = 2 if chk.quick else 3
            cases = [Case("free", "bytes %s" % b.hex(), "[:raw %s]" % jdn(b), b, field="free") for b in model.free_strings(maxlen)]
            run_cases(chk, ctx, tally, "free", cases)
            chk.cov["free_strings_max_length"] = maxlen
            completed.append("all byte strings of length <= %d over %d bytes" % (maxlen, len(model.FREE_ALPHABET)))

        # 2b. forged self-referential function images: a function that sits in the constants of the very funcdef it
        # refers to (back reference to a funcdef that is still being read), for every combination of the three
        # environment counts involved. marshal never writes this shape, and no single edit of a seed reaches it.
        if want("forged"):
            cases = [Case("forged", label, "[:raw %s]" % jdn(b), b, field="forged/selfref") for label, b in forged_selfref()]
            run_cases(chk, ctx, tally, "forged", cases)
            chk.cov["forged_selfref_images"] = len(cases)
            completed.append("%d forged self-referential function images" % len(cases))

        # 3. structure-aware single-field mutations (seeds in ascending size)
        if want("struct"):
            done = 0
            for g in groups_of(3000):
                if chk.out_of_time(0.80):
                    chk.cap("structure-aware mutations completed for the %d smallest of %d seeds (time budget)" % (done, len(seeds)))
                    break
                cases = []
                for i in g:
                    cases += seed_cases("struct", i, seeds[i][0], seeds[i][1], model.mutations_struct(parsed[i], nops, chk.quick), fmaps[i])
                # forged sizes of 2^24 and more often end in janet's out-of-memory exit, which kills the batch
                # process: keep them together at the end so that they do not cost the other items a re-run
                big = re.compile(r"=(\d{8,})$")
                cases.sort(key=lambda c: 1 if big.search(c.label) else 0)
                run_cases(chk, ctx, tally, "struct", cases)
                done += len(g)
            chk.cov["struct_seeds_completed"] = done
            completed.append("every located field x boundary values on %d of %d seeds" % (done, len(seeds)))

        # 4. asm
        if want("asm"):
            cases, ntpl, npaths = asm_cases()
            basec = [c for c in cases if c.family == "asm-base"]
            st = run_cases(chk, ctx, tally, "asm-base", basec)
            if st["accepted"] + st["crash"] + st["hang"] != len(basec):
                raise HarnessError("asm templates were not all accepted: %s" % st)
            rest = [c for c in cases if c.family == "asm"]
            if chk.quick:
                # quick: every node x the most extreme values
                keepv = {"nil", "-1", "256", "65536", "2147483647", "-2147483648", ":kw", "sym", "[]", ":c10/delete"}
                rest = [c for c in rest if c.asm[0] is None or c.asm[2] in keepv]
                nvals = len(keepv)
            else:
                nvals = len(ASM_VALUES)
            chk.cov["asm_values_per_node"] = nvals
            chk.part("asm-templates", templates=ntpl, nodes=npaths)
            if chk.out_of_time(0.85):
                chk.cap("asm node replacements not run (time budget)")
            else:
                run_cases(chk, ctx, tally, "asm", rest)
                completed.append("every node of %d asm descriptions (%d nodes) x %d values" % (ntpl, npaths, nvals))

        # 5. byte substitutions, seeds in ascending size; stop between groups when the budget is used
        if want("subst"):
            done = 0
            subst_order = groups_of(700 if chk.quick else 3000)
            if chk.quick:
                # quick bound: the seeds of at most 24 bytes (every scalar, string, small container, reference shape)
                subst_order = [[i for i in order if len(seeds[i][1]) <= 24]]
                chk.cov["subst_quick_bound"] = "seeds of at most 24 bytes"
            for g in subst_order:
                if chk.out_of_time(0.85 if chk.quick else 0.75):
                    chk.cap("byte substitution completed for the %d smallest of %d seeds (time budget)" % (done, len(seeds)))
                    break
                cases = []
                for i in g:
                    cases += seed_cases("subst", i, seeds[i][0], seeds[i][1],
                                        [("byte %d := %02x" % (off, rp[0]), off, dl, rp) for _, off, dl, rp in
                                         model.mutations_subst(seeds[i][1])], fmaps[i])
                run_cases(chk, ctx, tally, "subst", cases)
                done += len(g)
            chk.cov["subst_seeds_completed"] = done
            completed.append("every offset x %d boundary bytes on the %d smallest of %d seeds" % (
                len(model.BYTE_BOUNDARY), done, len(seeds)))

        # 6. pairs of header integers (thorough)
        if want("pairs") and not chk.quick:
            done = 0
            for g in groups_of(1500):
                if chk.out_of_time(0.92):
                    chk.cap("header-integer pairs completed for the %d smallest of %d seeds (time budget)" % (done, len(seeds)))
                    break
                cases = []
                pruned = 0
                for i in g:
                    for label, edits in model.mutations_pairs(parsed[i]):
                        # an assignment that alone already leaves through the out-of-memory exit (learnt from the
                        # single-field family) does so whatever its partner is: not combined
                        if any((i, o, d, bytes(rp)) in tally.oom_keys for o, d, rp in edits):
                            pruned += 1
                            continue
                        item = "[:e %d [%s]]" % (i, " ".join("[%d %d %s]" % (o, d, jdn(bytes(rp))) for o, d, rp in edits))
                        fld = "+".join(norm_field(x.split("=")[0]) for x in label.split(","))
                        cases.append(Case("pairs", "%s %s" % (seeds[i][0], label), item, model.apply_edits(seeds[i][1], edits),
                                          field=fld))
                run_cases(chk, ctx, tally, "pairs", cases)
                chk.part("pairs", pruned_resource_exit_assignments=pruned)
                done += len(g)
            chk.cov["pairs_seeds_completed"] = done
            completed.append("pairs of header integers on %d of %d seeds" % (done, len(seeds)))

        if tally.resource:
            chk.part("resource-exit-sites", **{k[:80]: v for k, v in sorted(tally.resource.items())})
        mid = order[len(order) // 2]
        chk.sample({"first_seed": seeds[order[0]][0], "image": seeds[order[0]][1].hex()})
        chk.sample({"middle_seed": seeds[mid][0], "image": seeds[mid][1].hex(), "fields": len(parsed[mid].fields),
                    "example_mutation": model.mutations_struct(parsed[mid], nops)[0][0]})
        chk.sample({"last_seed": seeds[order[-1]][0], "bytes": len(seeds[order[-1]][1])})
        chk.cov["bound_completed"] = "; ".join(completed) + " (%d seed bytes in total)" % nbytes
        report(chk, ctx, tally)
    finally:
        shutil.rmtree(scratch, ignore_errors=True)
    chk.finish()


if __name__ == "__main__":
    harness_guard(main)
