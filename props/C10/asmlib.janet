# C10 asm side: well-typed assembler descriptions (templates), enumeration of every node of a
# description (paths), and functional replacement of one node. Stand-alone (core library only) so
# that replay files can include it verbatim.

(def asm-template-sources
  "Each entry is Janet source that evaluates to a description accepted by `asm`."
  [
   # every opcode of the assembler once, well-typed and runnable
   ``
   ~{:name "allops" :arity 1 :min-arity 0 :max-arity 3 :source "tpl"
    :slots [a b c d e f g h i j k]
    :constants ["const" :kw [1 2] ,(fiber/new (fn [] (yield 1) (yield 2) 3)) @{:t 1}]
    :closures [{:name "inner" :arity 0 :environments [-1]
                :bytecode [(ldu 0 0 4) (addim 0 0 1) (setu 0 0 4) (ret 0)]}]
    :bytecode [(noop)
               (ldn 1) (ldt 2) (ldf 3) (ldi 4 100) (ldc 5 0) (lds 6)
               (tchck 4 :number)
               (addim 7 4 1) (add 7 7 4) (subim 7 7 1) (sub 7 7 4) (mulim 7 7 2) (mul 7 7 4)
               (divim 7 7 2) (div 7 7 4) (divf 7 7 4) (mod 7 7 4) (rem 7 7 4)
               (band 7 4 4) (bor 7 7 4) (bxor 7 7 4) (bnot 7 7)
               (ldi 8 1) (sl 7 4 8) (slim 7 4 1) (sr 7 4 8) (srim 7 4 1) (sru 7 4 8) (sruim 7 4 1)
               (movf 8 4) (movn 8 4)
               (gt 9 4 8) (gtim 9 4 1) (lt 9 4 8) (ltim 9 4 1) (eq 9 4 8) (eqim 9 4 1) (cmp 9 4 8)
               (gte 9 4 8) (lte 9 4 8) (neq 9 4 8) (neqim 9 4 1)
               (jmpif 9 :l1) :l1 (jmpno 9 :l2) :l2 (jmpni 1 :l3) :l3 (jmpnn 1 :l4) :l4 (jmp :l5) :l5
               (push 4) (push2 4 4) (push3 4 4 4) (mkarr 8)
               (pusha 8) (mktup 9)
               (push2 4 4) (mkbtp 9)
               (push 5) (mkbuf 9) (push 5) (mkstr 9)
               (push2 5 4) (mkstu 9) (push2 5 4) (mktab 9)
               (put 9 2 4) (get 7 9 2) (in 7 9 5) (puti 8 4 0) (geti 7 8 0) (len 7 8) (next 7 9 1)
               (clo 10 0) (call 7 10) (call 7 10)
               (ldc 6 3) (res 7 6 1) (res 7 6 1)
               (sig 7 4 3)
               (ret 7)]}
   ``
   # terminal and signalling instructions
   ``~{:arity 0 :bytecode [(retn)]}``
   ``~{:arity 1 :constants [,tuple] :bytecode [(ldc 1 0) (push2 0 0) (tcall 1)]}``
   ``~{:arity 1 :bytecode [(err 0)]}``
   ``~{:arity 0 :constants [,(let [f (fiber/new (fn [] (error :inner)) :e)] (resume f) f)] :bytecode [(ldc 0 0) (ldn 1) (prop 2 1 0) (ret 2)]}``
   ``~{:arity 0 :constants [,(let [f (fiber/new (fn [] (yield 1) 2))] (resume f) f) "cancelled"] :bytecode [(ldc 0 0) (ldc 1 1) (cncl 2 0 1) (ret 2)]}``
   ``~{:arity 2 :vararg true :structarg false :min-arity 1 :max-arity 2147483647 :bytecode [(push3 0 1 2) (mktup 3) (ret 3)]}``
   ``~{:arity 0 :vararg true :structarg true :bytecode [(ret 0)]}``
   # descriptions with debug information and nested definitions
   ``
   ~{:name "dbg" :arity 1 :source "tpl" :slots [x y]
    :sourcemap [(1 2) (1 3) (2 4)]
    :symbolmap [(0 3 0 x) (1 3 1 y) (:upvalue 0 0 u)]
    :bytecode [(addim 1 0 1) (movn 0 1) (ret 0)]}
   ``
   ``
   ~{:name "outer" :arity 1 :slots [x f g]
    :closures [{:name "mid" :arity 1 :slots [y h] :environments [-1]
                :closures [{:name "leaf" :arity 0 :environments [-1 0]
                            :bytecode [(ldu 0 0 0) (ldu 1 1 0) (add 0 0 1) (ret 0)]}]
                :bytecode [(clo 1 0) (ret 1)]}]
    :bytecode [(clo 1 0) (push 0) (call 2 1) (ret 2)]}
   ``
   # descriptions produced by the real disassembler
   ``(disasm (fn [x & r] (tuple x r)))``
   ``(disasm (fn [n] (var s 0) (for i 0 n (+= s i)) s))``
   ``(disasm (fn [] (var c 0) (fn [&opt x] (if x (set c x) (++ c)))))``
   ``(disasm (fn [x] (fn [y] (fn [z] [x y z]))))``
   ``(disasm (fn [&opt a] (try (error a) ([e] [:caught e]))))``
   ``(disasm (fn [&named a b] {:a a :b b}))``
  ])

(defn asm-template [i]
  (eval-string (asm-template-sources i)))

(defn asm-paths
  "Every node of a description as a path (tuple of keys / indices); the root is []."
  [desc]
  (def out @[])
  (defn go [x path]
    (array/push out (tuple/slice path))
    (when (< (length path) 8)
      (case (type x)
        :tuple (eachp [i v] x (go v [;path i]))
        :array (eachp [i v] x (go v [;path i]))
        :struct (each k (sort (keys x)) (go (in x k) [;path k]))
        :table (each k (sort (keys x)) (go (in x k) [;path k]))
        nil)))
  (go desc [])
  out)

(defn asm-replace
  "Copy of desc with the node at path replaced by v (:c10/delete removes it, :c10/dup repeats it)."
  [desc path v]
  (if (empty? path)
    v
    (let [k (first path) more (tuple/slice path 1)]
      (defn child [] (asm-replace (in desc k) more v))
      (def structural (and (empty? more) (or (= v :c10/delete) (= v :c10/dup))))
      (case (type desc)
        :tuple (let [a (array/slice desc)]
                 (if structural
                   (if (= v :c10/delete) (array/remove a k) (array/insert a k (in a k)))
                   (put a k (child)))
                 (if (= :brackets (tuple/type desc)) (tuple/brackets ;a) (tuple/slice a)))
        :array (let [a (array/slice desc)]
                 (if structural
                   (if (= v :c10/delete) (array/remove a k) (array/insert a k (in a k)))
                   (put a k (child)))
                 a)
        :struct (let [t (struct/to-table desc)]
                  (if structural (put t k nil) (put t k (child)))
                  (table/to-struct t))
        :table (let [t (table/clone desc)]
                 (if structural (put t k nil) (put t k (child)))
                 t)
        desc))))
