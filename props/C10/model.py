"""C10 model: an independent Python re-implementation of the reader of src/core/marsh.c.

It does not build values; it *locates* every field of an image (lead bytes, variable-length
integers, 64-bit sizes, reference indices, flag words, raw byte runs, bytecode words, reals) so
that the fault enumerator can replace each one by boundary values.  It is validated at run time
by parsing every seed produced by the real `marshal`: the parse must consume the image exactly
and re-encoding every integer field canonically must reproduce the image.

stdlib only.
"""
import struct

LB_REAL = 200
LB_NIL = 201
LB_FALSE = 202
LB_TRUE = 203
LB_FIBER = 204
LB_INTEGER = 205
LB_STRING = 206
LB_SYMBOL = 207
LB_KEYWORD = 208
LB_ARRAY = 209
LB_TUPLE = 210
LB_TABLE = 211
LB_TABLE_PROTO = 212
LB_STRUCT = 213
LB_BUFFER = 214
LB_FUNCTION = 215
LB_REGISTRY = 216
LB_ABSTRACT = 217
LB_REFERENCE = 218
LB_FUNCENV_REF = 219
LB_FUNCDEF_REF = 220
LB_UNSAFE_CFUNCTION = 221
LB_UNSAFE_POINTER = 222
LB_STRUCT_PROTO = 223
LB_THREADED_ABSTRACT = 224
LB_POINTER_BUFFER = 225
LB_TABLE_WEAKK = 226
LB_TABLE_WEAKV = 227
LB_TABLE_WEAKKV = 228
LB_TABLE_WEAKK_PROTO = 229
LB_TABLE_WEAKV_PROTO = 230
LB_TABLE_WEAKKV_PROTO = 231
LB_ARRAY_WEAK = 232

LEAD_NAMES = {v: k for k, v in list(globals().items()) if k.startswith("LB_")}
ALL_LEAD_BYTES = list(range(200, 233))

TABLE_LEADS = {LB_TABLE: ("", False), LB_TABLE_PROTO: ("", True),
               LB_TABLE_WEAKK: ("k", False), LB_TABLE_WEAKV: ("v", False), LB_TABLE_WEAKKV: ("kv", False),
               LB_TABLE_WEAKK_PROTO: ("k", True), LB_TABLE_WEAKV_PROTO: ("v", True),
               LB_TABLE_WEAKKV_PROTO: ("kv", True)}

FRAME_SIZE = 4
FUNCDEF_FLAG_VARARG = 0x10000
FUNCDEF_FLAG_HASSYMBOLMAP = 0x40000
FUNCDEF_FLAG_HASNAME = 0x80000
FUNCDEF_FLAG_HASSOURCE = 0x100000
FUNCDEF_FLAG_HASDEFS = 0x200000
FUNCDEF_FLAG_HASENVS = 0x400000
FUNCDEF_FLAG_HASSOURCEMAP = 0x800000
FUNCDEF_FLAG_STRUCTARG = 0x1000000
FUNCDEF_FLAG_HASCLOBITSET = 0x2000000
FIBER_FLAG_HASCHILD = 1 << 29
FIBER_FLAG_HASENV = 1 << 30
STACKFRAME_HASENV = -(1 << 31)


def set_funcdef_flags(d):
    """The flag values are read from the header at import time by check.py (fail closed if the
    header changes)."""
    g = globals()
    for k, v in d.items():
        g[k] = v


class ParseError(Exception):
    pass


def enc_int(x):
    """pushint of marsh.c."""
    if 0 <= x < 128:
        return bytes([x])
    if -8192 <= x <= 8191:
        return bytes([((x >> 8) & 0x3F) | 0x80, x & 0xFF])
    return bytes([LB_INTEGER]) + struct.pack(">i", x)


def enc_int_wide(x):
    """The 5-byte form, legal for every value (non-canonical for small ones)."""
    return bytes([LB_INTEGER]) + struct.pack(">i", x)


def enc_u64(x):
    """push64 of marsh.c."""
    if x <= 0xF0:
        return bytes([x])
    out = []
    while x:
        out.append(x & 0xFF)
        x >>= 8
    return bytes([0xF0 + len(out)] + out)


class Field:
    """One located field of an image.
    kind: lead | int | u64 | ref | envref | defref | bytes | real | u32 | byte
    """
    __slots__ = ("kind", "off", "end", "name", "val", "ctx")

    def __init__(self, kind, off, end, name, val, ctx=None):
        self.kind, self.off, self.end, self.name, self.val, self.ctx = kind, off, end, name, val, ctx or {}

    def __repr__(self):
        return "Field(%s %d:%d %s=%r)" % (self.kind, self.off, self.end, self.name, self.val)


class Reader:
    def __init__(self, data):
        self.d = bytes(data)
        self.p = 0
        self.fields = []
        self.lookup = []        # descriptions of referenceable values, in push order
        self.envs = 0
        self.defs = 0
        self.enclosing = []     # lookup ids of the containers being read
        self.leads = set()
        self.depth = 0

    # -- primitives
    def need(self, n):
        if self.p + n > len(self.d):
            raise ParseError("unexpected end at %d (+%d)" % (self.p, n))

    def byte(self, name):
        self.need(1)
        b = self.d[self.p]
        self.fields.append(Field("byte", self.p, self.p + 1, name, b))
        self.p += 1
        return b

    def lead(self, name):
        self.need(1)
        b = self.d[self.p]
        self.fields.append(Field("lead", self.p, self.p + 1, name, b))
        self.leads.add(b)
        self.p += 1
        return b

    def rawint(self):
        self.need(1)
        b = self.d[self.p]
        if b < 128:
            self.p += 1
            return b
        if b < 192:
            self.need(2)
            u = ((b & 0x3F) << 8) + self.d[self.p + 1]
            if u >> 13:
                u |= 0xFFFFC000
            self.p += 2
            return u - (1 << 32) if u & 0x80000000 else u
        if b == LB_INTEGER:
            self.need(5)
            v = struct.unpack(">i", self.d[self.p + 1:self.p + 5])[0]
            self.p += 5
            return v
        raise ParseError("expected integer at %d, got %02x" % (self.p, b))

    def int(self, name, kind="int", nat=False, **ctx):
        o = self.p
        v = self.rawint()
        if nat and v < 0:
            raise ParseError("negative %s" % name)
        self.fields.append(Field(kind, o, self.p, name, v, ctx))
        return v

    def u64(self, name):
        o = self.p
        self.need(1)
        b = self.d[self.p]
        if b <= 0xF0:
            v = b
            self.p += 1
        else:
            n = b - 0xF0
            if n > 8:
                raise ParseError("bad u64")
            self.need(n + 1)
            v = 0
            for i in range(n, 0, -1):
                v = (v << 8) + self.d[self.p + i]
            self.p += n + 1
        self.fields.append(Field("u64", o, self.p, name, v))
        return v

    def raw(self, n, name):
        self.need(n)
        o = self.p
        self.p += n
        self.fields.append(Field("bytes", o, self.p, name, self.d[o:self.p]))
        return self.d[o:self.p]

    def u32s(self, n, name):
        out = []
        for i in range(n):
            self.need(4)
            v = struct.unpack("<I", self.d[self.p:self.p + 4])[0]
            self.fields.append(Field("u32", self.p, self.p + 4, "%s[%d]" % (name, i), v))
            self.p += 4
            out.append(v)
        return out

    def push(self, desc):
        self.lookup.append(desc)
        return len(self.lookup) - 1

    def refctx(self):
        return dict(count=len(self.lookup), enclosing=list(self.enclosing))

    # -- values
    def value(self, where="value"):
        self.depth += 1
        if self.depth > 1100:
            raise ParseError("too deep")
        try:
            return self._value(where)
        finally:
            self.depth -= 1

    def _value(self, where):
        self.need(1)
        b = self.d[self.p]
        if b < LB_REAL:
            if b >= 192:
                raise ParseError("bad lead %02x" % b)
            v = self.int(where + ":int")
            return ("int", v)
        lead = self.lead(where + ":" + LEAD_NAMES.get(b, "?"))
        if lead in (LB_NIL, LB_FALSE, LB_TRUE):
            return ("const", lead)
        if lead == LB_INTEGER:
            self.p -= 1
            self.fields.pop()
            v = self.int(where + ":int")
            return ("int", v)
        if lead == LB_REAL:
            self.need(8)
            v = self.d[self.p:self.p + 8]
            self.fields.append(Field("real", self.p, self.p + 8, where + ":real", v))
            self.p += 8
            self.push(("real", v))
            return ("real", v)
        if lead in (LB_STRING, LB_SYMBOL, LB_BUFFER, LB_KEYWORD, LB_REGISTRY):
            kind = {LB_STRING: "string", LB_SYMBOL: "symbol", LB_BUFFER: "buffer", LB_KEYWORD: "keyword",
                    LB_REGISTRY: "registry"}[lead]
            n = self.int(kind + ".length", nat=True)
            s = self.raw(n, kind + ".bytes")
            self.push((kind, s))
            return (kind, s)
        if lead == LB_FIBER:
            return self.fiber()
        if lead == LB_FUNCTION:
            return self.function()
        if lead == LB_ABSTRACT:
            return self.abstract()
        if lead == LB_REFERENCE:
            idx = self.int("reference.index", kind="ref", nat=True, **self.refctx())
            if idx >= len(self.lookup):
                raise ParseError("invalid reference %d" % idx)
            return ("ref", idx, self.lookup[idx])
        if lead in (LB_ARRAY, LB_ARRAY_WEAK):
            n = self.int("array.count", nat=True)
            me = self.push(("array",))
            self.enclosing.append(me)
            for i in range(n):
                self.value("array[%d]" % i)
            self.enclosing.pop()
            return ("array", me)
        if lead == LB_TUPLE:
            n = self.int("tuple.count", nat=True)
            self.int("tuple.flag")
            for i in range(n):
                self.value("tuple[%d]" % i)
            self.push(("tuple",))
            return ("tuple",)
        if lead in (LB_STRUCT, LB_STRUCT_PROTO):
            n = self.int("struct.count", nat=True)
            if lead == LB_STRUCT_PROTO:
                self.value("struct.proto")
            for i in range(n):
                self.value("struct.key[%d]" % i)
                self.value("struct.value[%d]" % i)
            self.push(("struct",))
            return ("struct",)
        if lead in TABLE_LEADS:
            n = self.int("table.count", nat=True)
            me = self.push(("table",))
            self.enclosing.append(me)
            if TABLE_LEADS[lead][1]:
                self.value("table.proto")
            for i in range(n):
                self.value("table.key[%d]" % i)
                self.value("table.value[%d]" % i)
            self.enclosing.pop()
            return ("table", me)
        raise ParseError("unsupported lead byte %d at %d" % (lead, self.p - 1))

    def function(self):
        n = self.int("function.envcount", nat=True)
        me = self.push(("function",))
        self.enclosing.append(me)
        self.funcdef("def")
        for i in range(n):
            self.funcenv("function.env[%d]" % i)
        self.enclosing.pop()
        return ("function", me)

    def funcdef(self, where):
        self.need(1)
        if self.d[self.p] == LB_FUNCDEF_REF:
            self.lead(where + ":LB_FUNCDEF_REF")
            idx = self.int("funcdefref.index", kind="defref", count=self.defs)
            if idx < 0 or idx >= self.defs:
                raise ParseError("bad funcdef ref")
            return
        self.defs += 1
        flags = self.int("funcdef.flags", role="flags")
        slotcount = self.int("funcdef.slotcount", nat=True)
        self.int("funcdef.arity", nat=True)
        self.int("funcdef.min_arity", nat=True)
        self.int("funcdef.max_arity", nat=True)
        nconst = self.int("funcdef.constants_length", nat=True)
        nbc = self.int("funcdef.bytecode_length", nat=True)
        nenv = ndefs = nsym = 0
        if flags & FUNCDEF_FLAG_HASENVS:
            nenv = self.int("funcdef.environments_length", nat=True)
        if flags & FUNCDEF_FLAG_HASDEFS:
            ndefs = self.int("funcdef.defs_length", nat=True)
        if flags & FUNCDEF_FLAG_HASSYMBOLMAP:
            nsym = self.int("funcdef.symbolmap_length", nat=True)
        if flags & FUNCDEF_FLAG_HASNAME:
            self.value("funcdef.name")
        if flags & FUNCDEF_FLAG_HASSOURCE:
            self.value("funcdef.source")
        for i in range(nconst):
            self.value("funcdef.constant[%d]" % i)
        for i in range(nsym):
            self.int("symbolmap.birth_pc")
            self.int("symbolmap.death_pc")
            self.int("symbolmap.slot_index")
            self.value("symbolmap.symbol")
        self.u32s(nbc, "bytecode")
        for i in range(nenv):
            self.int("funcdef.environments[%d]" % i)
        for i in range(ndefs):
            self.funcdef("funcdef.defs[%d]" % i)
        if flags & FUNCDEF_FLAG_HASSOURCEMAP:
            for i in range(nbc):
                self.int("sourcemap.line_delta")
                self.int("sourcemap.column")
        if flags & FUNCDEF_FLAG_HASCLOBITSET:
            self.u32s((slotcount + 31) >> 5, "closure_bitset")

    def funcenv(self, where):
        self.need(1)
        if self.d[self.p] == LB_FUNCENV_REF:
            self.lead(where + ":LB_FUNCENV_REF")
            idx = self.int("funcenvref.index", kind="envref", count=self.envs)
            if idx < 0 or idx >= self.envs:
                raise ParseError("bad funcenv ref")
            return
        self.envs += 1
        offset = self.int("funcenv.offset", nat=True)
        length = self.int("funcenv.length", nat=True)
        if offset > 0:
            self.value("funcenv.fiber")
        else:
            if length == 0:
                raise ParseError("invalid funcenv length")
            for i in range(length):
                self.value("funcenv.value[%d]" % i)

    def fiber(self):
        me = self.push(("fiber",))
        self.enclosing.append(me)
        flags = self.int("fiber.flags", role="flags")
        frame = self.int("fiber.frame", nat=True)
        stackstart = self.int("fiber.stackstart", nat=True)
        stacktop = self.int("fiber.stacktop", nat=True)
        maxstack = self.int("fiber.maxstack", nat=True)
        if frame + FRAME_SIZE > stackstart or stackstart > stacktop or stacktop > maxstack:
            raise ParseError("fiber has incorrect stack setup")
        stack = frame
        top = stackstart - FRAME_SIZE
        nframe = 0
        while stack > 0:
            fflags = self.int("frame.flags", role="flags")
            prev = self.int("frame.prevframe", nat=True)
            self.int("frame.pcdiff", nat=True)
            self.value("frame.func")
            if fflags & (1 << 31):
                self.funcenv("frame.env")
            if prev + FRAME_SIZE > stack:
                raise ParseError("frame misaligned")
            for i in range(stack, top):
                self.value("frame[%d].slot[%d]" % (nframe, i - stack))
            top = stack - FRAME_SIZE
            stack = prev
            nframe += 1
        if flags & FIBER_FLAG_HASENV:
            self.value("fiber.env")
        if flags & FIBER_FLAG_HASCHILD:
            self.value("fiber.child")
        self.value("fiber.last_value")
        self.enclosing.pop()
        return ("fiber", me)

    def abstract(self):
        o = self.p
        name = self.value("abstract.name")
        while name[0] == "ref":
            name = name[2]
        if name[0] not in ("symbol",):
            raise ParseError("abstract type name is not a symbol at %d" % o)
        tname = name[1]
        if tname in (b"core/s64", b"core/u64"):
            self.push(("abstract", tname))
            self.u64("int64.value")
        elif tname == b"core/rng":
            self.push(("abstract", tname))
            for f in "abcd":
                self.int("rng." + f)
            self.int("rng.counter")
        elif tname == b"core/peg":
            n = self.u64("peg.bytecode_len")
            nc = self.int("peg.num_constants")
            me = self.push(("abstract", tname))
            self.enclosing.append(me)
            for i in range(n):
                self.int("peg.bytecode[%d]" % i, role="pegword", blen=n, nconst=nc)
            for i in range(nc):
                self.value("peg.constant[%d]" % i)
            self.enclosing.pop()
        elif tname == b"core/channel":
            self.byte("channel.is_threaded")
            me = self.push(("abstract", tname))
            self.enclosing.append(me)
            self.byte("channel.closed")
            self.int("channel.limit")
            n = self.int("channel.count")
            for i in range(n):
                self.value("channel.item[%d]" % i)
            self.enclosing.pop()
        else:
            raise ParseError("unsupported abstract type %r" % tname)
        return ("abstract", tname)


def parse(data):
    """Parse one image completely. Returns the Reader (fields, leads, lookup)."""
    r = Reader(data)
    r.value("top")
    if r.p != len(r.d):
        raise ParseError("trailing bytes: parsed %d of %d" % (r.p, len(r.d)))
    # coverage of the byte string by fields must be exact and gap-free
    pos = 0
    for f in sorted(r.fields, key=lambda f: f.off):
        if f.off != pos:
            raise ParseError("field gap/overlap at %d (%r)" % (pos, f))
        pos = f.end
    if pos != len(r.d):
        raise ParseError("fields do not cover the image")
    return r


def reencode(r):
    """Rebuild the image from the located fields with canonical integer encodings."""
    out = bytearray()
    for f in sorted(r.fields, key=lambda f: f.off):
        if f.kind in ("int", "ref", "envref", "defref"):
            out += enc_int(f.val)
        elif f.kind == "u64":
            out += enc_u64(f.val)
        elif f.kind == "u32":
            out += struct.pack("<I", f.val)
        elif f.kind in ("lead", "byte"):
            out.append(f.val)
        else:
            out += f.val
    return bytes(out)


# --------------------------------------------------------------------------
# fault enumeration

INT_BOUNDARY = [-1, 0, 1, 127, 128, 255, 256, 8191, 8192, 65535, 1 << 24, (1 << 31) - 9, (1 << 31) - 5,
                (1 << 31) - 1, -(1 << 31)]
U64_BOUNDARY = [0, 1, 0xF0, 0xF1, 0xFFFF, 1 << 31, (1 << 32) - 1, 1 << 32, 1 << 61, (1 << 62) - 1, 1 << 62,
                (1 << 62) + 1, 1 << 63, (1 << 64) - 1]
BYTE_BOUNDARY = sorted(set([0x00, 0x01, 0x7F, 0x80, 0xBF, 0xC0, 0xF0, 0xF8, 0xFF] + list(range(0xC8, 0xE0)) +
                           list(range(0xE0, 0xE9))))
# NaN-boxed bit patterns that spell pointer-tagged values on a 64-bit nanbox build: tag in bits 47..50,
# payload = an address. (janet_wrap_number_safe must turn them all into plain NaN.)
def nanbox_patterns():
    out = []
    for tag in range(16):
        for payload in (0, 1, 0x7FFFFFFFFFFF, 0x000055550000):
            for sign in (0, 1):
                bits = (sign << 63) | (0x7FF8 << 48) | (tag << 47) | payload
                bits &= (1 << 64) - 1
                out.append(struct.pack("<Q", bits))
    for bits in (0x7FF0000000000001, 0xFFF8000000000000, 0xFFFFFFFFFFFFFFFF, 0x7FFFFFFFFFFFFFFF, 0x8000000000000000):
        out.append(struct.pack("<Q", bits))
    seen, res = set(), []
    for b in out:
        if b not in seen:
            seen.add(b)
            res.append(b)
    return res


NANBOX = nanbox_patterns()


def clamp32(v):
    return max(-(1 << 31), min((1 << 31) - 1, v))


def int_candidates(f):
    """Replacement values for one integer-like field (excluding the original)."""
    vals = list(INT_BOUNDARY) + [clamp32(f.val - 1), clamp32(f.val + 1)]
    if f.name.startswith("fiber.") or f.name.startswith("frame.") or ".fiber." in f.name or ".frame." in f.name:
        # stack offsets: also off by a few slots / by one frame header in either direction
        vals += [clamp32(f.val + d) for d in (-2, 2, -3, 3, -FRAME_SIZE, FRAME_SIZE, -FRAME_SIZE - 1, FRAME_SIZE + 1)]
    if f.kind == "ref":
        c = f.ctx.get("count", 0)
        vals += [0, c - 1, c, c + 1] + list(f.ctx.get("enclosing", []))
    elif f.kind in ("envref", "defref"):
        c = f.ctx.get("count", 0)
        vals += [0, c - 1, c, c + 1]
    if f.ctx.get("role") == "pegword":
        # a word that is used as a rule index or a constant index: exactly at, just below and just above the two limits
        bl, nc = f.ctx.get("blen", 0), f.ctx.get("nconst", 0)
        vals += [bl - 1, bl, bl + 1, bl + 2, nc - 1, nc, nc + 1] + list(range(0, 6))
    if f.ctx.get("role") == "flags":
        # every single flag bit toggled, all set, none set
        vals += [clamp32(_s32(f.val ^ (1 << b))) for b in range(32)]
        vals += [0, -1]
    out, seen = [], {f.val}
    for v in vals:
        if v not in seen:
            seen.add(v)
            out.append(v)
    return out


def _s32(u):
    u &= 0xFFFFFFFF
    return u - (1 << 32) if u & 0x80000000 else u


def mutations_trunc(img):
    """Every proper prefix."""
    return [("t", n, len(img) - n, b"") for n in range(len(img))]


def mutations_subst(img):
    """Every offset x every byte of the boundary set (plus b-1, b+1), original excluded."""
    out = []
    for off, b in enumerate(img):
        cands = set(BYTE_BOUNDARY)
        cands.add((b - 1) & 0xFF)
        cands.add((b + 1) & 0xFF)
        cands.discard(b)
        for c in sorted(cands):
            out.append(("s", off, 1, bytes([c])))
    return out


def instr_candidates(word, nops, reduced=False):
    """Boundary rewrites of one bytecode word: every operand byte/half/3-byte field set to its extremes,
    opcode replaced by every opcode (reduced: every third one) and the first invalid one, debug bit set."""
    out = []
    ops = list(range(0, nops, 3)) + [nops - 1] if reduced else list(range(nops))
    for op in ops + [nops, 0x7F, 0x80 | (word & 0x7F)]:
        out.append((word & 0xFFFFFF00) | op)
    for shift, width in ((8, 8), (16, 8), (24, 8), (8, 16), (16, 16), (8, 24)):
        mask = ((1 << width) - 1) << shift
        for v in (0, 1, (1 << (width - 1)) - 1, 1 << (width - 1), (1 << width) - 1, (1 << width) - 2):
            out.append((word & ~mask & 0xFFFFFFFF) | ((v << shift) & mask))
    res, seen = [], {word}
    for w in out:
        w &= 0xFFFFFFFF
        if w not in seen:
            seen.add(w)
            res.append(w)
    return res


REDUCED_LEADS = [LB_REAL, LB_NIL, LB_FIBER, LB_INTEGER, LB_STRING, LB_ARRAY, LB_TUPLE, LB_TABLE_PROTO, LB_STRUCT,
                 LB_FUNCTION, LB_REGISTRY, LB_ABSTRACT, LB_REFERENCE, LB_FUNCENV_REF, LB_FUNCDEF_REF, LB_UNSAFE_POINTER,
                 LB_POINTER_BUFFER, LB_TABLE_WEAKKV_PROTO, LB_ARRAY_WEAK]


def mutations_struct(r, nops=80, reduced=False):
    """Structure-aware single-field mutations located by the reader. Returns (label, off, dellen, repl).
    reduced (quick tier): every third opcode instead of every opcode, 19 of the 33 lead bytes."""
    out = []
    for f in r.fields:
        n = f.end - f.off
        if f.kind in ("int", "ref", "envref", "defref"):
            for v in int_candidates(f):
                out.append(("%s=%d" % (f.name, v), f.off, n, enc_int(v)))
            # same value, non-canonical 5-byte encoding
            if n != 5:
                out.append(("%s:wide" % f.name, f.off, n, enc_int_wide(f.val)))
        elif f.kind == "u64":
            for v in U64_BOUNDARY + [max(0, f.val - 1), (f.val + 1) & ((1 << 64) - 1)]:
                if v != f.val:
                    out.append(("%s=%d" % (f.name, v), f.off, n, enc_u64(v)))
            out.append(("%s:9bytes" % f.name, f.off, n, bytes([0xF9]) + b"\x01" * 9))
        elif f.kind == "real":
            for pat in NANBOX:
                if pat != f.val:
                    out.append(("%s=nanbox:%s" % (f.name, pat.hex()), f.off, n, pat))
        elif f.kind == "u32" and f.name.startswith("bytecode"):
            for w in instr_candidates(f.val, nops, reduced):
                out.append(("%s=%08x" % (f.name, w), f.off, n, struct.pack("<I", w)))
        elif f.kind == "u32":
            for w in (0, 0xFFFFFFFF, f.val ^ 1, f.val ^ 0x80000000):
                if w != f.val:
                    out.append(("%s=%08x" % (f.name, w), f.off, n, struct.pack("<I", w)))
        elif f.kind == "lead":
            # every lead byte of the protocol in place of this one
            for b in (REDUCED_LEADS if reduced else ALL_LEAD_BYTES):
                if b != f.val:
                    out.append(("%s->%s" % (f.name, LEAD_NAMES.get(b, b)), f.off, n, bytes([b])))
        elif f.kind == "byte":
            for b in (0, 1, 2, 0x7F, 0x80, 0xFF):
                if b != f.val:
                    out.append(("%s=%d" % (f.name, b), f.off, n, bytes([b])))
        elif f.kind == "bytes" and n > 0:
            # drop / duplicate the run's last byte without fixing the length (length/content skew)
            out.append(("%s:drop-last" % f.name, f.end - 1, 1, b""))
            out.append(("%s:dup-last" % f.name, f.end, 0, f.val[-1:]))
    # de-duplicate identical edits
    res, seen = [], set()
    for m in out:
        k = (m[1], m[2], m[3])
        if k not in seen:
            seen.add(k)
            res.append(m)
    return res


PAIR_VALUES = [0, 1, 4, 5, 127, 8192, (1 << 31) - 5, (1 << 31) - 1]


def mutations_pairs(r):
    """Pairs of integer fields inside one record header (fiber header, frame header, funcdef header,
    funcenv header): both replaced by values of a reduced boundary set. Returns edits as lists of
    (off, dellen, repl) applied right-to-left."""
    groups = {}
    order = []
    rec = None
    for f in r.fields:
        if f.kind != "int":
            rec = None
            continue
        prefix = f.name.split(".")[0]
        if prefix not in ("fiber", "frame", "funcdef", "funcenv") or "[" in f.name:
            rec = None
            continue
        if rec is None or rec[0] != prefix or (prefix == "funcdef" and f.name == "funcdef.flags") \
                or (prefix == "fiber" and f.name == "fiber.flags") or (prefix == "frame" and f.name == "frame.flags") \
                or (prefix == "funcenv" and f.name == "funcenv.offset"):
            rec = (prefix, len(order))
            order.append([])
        order[rec[1]].append(f)
    out = []
    for fs in order:
        for i in range(len(fs)):
            for j in range(i + 1, len(fs)):
                a, b = fs[i], fs[j]
                for va in PAIR_VALUES:
                    if va == a.val:
                        continue
                    for vb in PAIR_VALUES:
                        if vb == b.val:
                            continue
                        out.append(("%s=%d,%s=%d" % (a.name, va, b.name, vb),
                                    [(b.off, b.end - b.off, enc_int(vb)), (a.off, a.end - a.off, enc_int(va))]))
    return out


def apply_edit(img, off, dellen, repl):
    return img[:off] + repl + img[off + dellen:]


def apply_edits(img, edits):
    for off, dellen, repl in sorted(edits, key=lambda e: -e[0]):
        img = apply_edit(img, off, dellen, repl)
    return img


FREE_ALPHABET = sorted(set([0x00, 0x01, 0x02, 0x04, 0x7F, 0x80, 0xBF, 0xC0, 0xC7, 0xF1, 0xF9, 0xFF] +
                           [LB_REAL, LB_NIL, LB_FIBER, LB_INTEGER, LB_STRING, LB_SYMBOL, LB_ARRAY, LB_TUPLE, LB_TABLE,
                            LB_TABLE_PROTO, LB_STRUCT, LB_BUFFER, LB_FUNCTION, LB_REGISTRY, LB_ABSTRACT, LB_REFERENCE,
                            LB_FUNCENV_REF, LB_FUNCDEF_REF, LB_UNSAFE_CFUNCTION, LB_UNSAFE_POINTER, LB_STRUCT_PROTO,
                            LB_THREADED_ABSTRACT, LB_POINTER_BUFFER, LB_TABLE_WEAKK, LB_TABLE_WEAKKV_PROTO,
                            LB_ARRAY_WEAK, 233, 0x61]))


def free_strings(maxlen):
    """All byte strings of length <= maxlen over FREE_ALPHABET (40 bytes)."""
    import itertools
    for n in range(maxlen + 1):
        for t in itertools.product(FREE_ALPHABET, repeat=n):
            yield bytes(t)
