# C10 batch driver. Items (one per line):
#   [:m seed-index off dellen "replacement"]   seed image with bytes [off, off+dellen) replaced
#   [:e seed-index [[off dellen "repl"] ...]]  several edits (given right-to-left)
#   [:raw "bytes"]                              a free byte string
#   [:asm description]                          (asm description), description given as data
#   [:am template-index path value]             (asm (asm-replace template path value))
# Environment: C10_SEEDS = file with one hex image per line, C10_NATIVE = path of c10native.so,
# C10_TRACE=1 announces every step on stderr.
(use prelude)
(import ./seeds :as S)
(import ./exercise :as E)
(import ./asmlib :as A)

(def seeds
  (seq [line :in (string/split "\n" (string/trim (slurp (os/getenv "C10_SEEDS"))))]
    (def [name hx] (string/split "\t" line))
    (def b (buffer/new (/ (length hx) 2)))
    (for i 0 (/ (length hx) 2)
      (buffer/push-byte b (scan-number (string/slice hx (* 2 i) (+ 2 (* 2 i))) 16)))
    (string b)))

(def native-path (os/getenv "C10_NATIVE"))
(def native-mod (when (and native-path (not= native-path "")) (native native-path)))
(def c10-resume (when native-mod ((native-mod 'c10/resume) :value)))
(def c10-fork (when native-mod ((native-mod 'c10/fork-call) :value)))
(def trace (truthy? (os/getenv "C10_TRACE")))

(setdyn :c10-resume c10-resume)
(setdyn :c10-fork c10-fork)
(setdyn :c10-trace trace)

(defn item-bytes [item]
  (case (item 0)
    :m (let [[_ si off dl repl] item
             img (seeds si)]
         (string (string/slice img 0 off) repl (string/slice img (+ off dl))))
    :e (let [[_ si edits] item]
         (var img (seeds si))
         (each [off dl repl] edits
           (set img (string (string/slice img 0 off) repl (string/slice img (+ off dl)))))
         img)
    :raw (item 1)
    (errorf "bad item %p" item)))

(defn run-item [item]
  (def lookup (S/make-lookup))
  (def rev (invert lookup))
  (def make
    (case (item 0)
      :asm (let [desc (item 1)] (fn [&opt img] (if img (unmarshal img lookup) (asm desc))))
      # the template is rebuilt for every load: its constants (fibers, tables) are consumed by running
      :am (let [[_ ti path v] item]
            (fn [&opt img] (if img (unmarshal img lookup) (asm (if (= v :c10/none) (A/asm-template ti) (A/asm-replace (A/asm-template ti) path v))))))
      (let [bytes (item-bytes item)] (fn [&opt img] (unmarshal (or img bytes) lookup)))))
  (def remarshal (fn [v] (marshal v rev)))
  (def fb (fiber/new (fn [] (E/exercise make remarshal)) :ie))
  (fiber/setmaxstack fb 60000)
  (def res (resume fb))
  (def out
    (if (= :error (fiber/status fb))
      (string "X " (E/ex-current-step) " " (string/slice (string res) 0 (min 60 (length (string res)))))
      res))
  (E/exercise-done)
  out)

(batch-run run-item)
