# C10 exercise battery. Stand-alone: needs nothing but the core library, so a replay file can
# include it verbatim. Optional hooks are read from dynamic bindings:
#   (dyn :c10-resume)  (fn [fiber value ms] -> [signal-number value interrupted?])  budgeted resume
#                      (the native helper); when absent plain `resume` is used (no budget).
#   (dyn :c10-fork)    (fn [thunk cpu-seconds] -> [:exit code] | [:signal n])  runs a thunk in a
#                      CPU-limited forked child (used for peg/match, which cannot be interrupted and
#                      may legitimately loop: the stock compiler accepts {:main (+ "a" :main)}, which
#                      never returns). When absent the thunk runs in-process.
#   (dyn :c10-trace)   when truthy every step is announced on stderr ("C10-STEP <name>") so that a
#                      crash can be attributed to the step that was running.
#
# Phase 1 (must terminate: bounded by the size of the input): load (unmarshal / asm), print with
# %p %j %v %q %m, describe, string, hash, use as a table key, compare with a sibling loaded from the
# same bytes (=, compare, <), marshal again and load that, deep walk, collection while live.
# Phase 2 (budgeted: mutated bytecode may legitimately loop): every function / fiber reachable from
# the value is called / resumed with each of the argument tuples (), (nil), (1 2 3), (self) - the
# value is loaded afresh for every tuple because running consumes fibers - fibers are resumed up to 3
# times; functions and fibers returned by those calls are exercised too (depth 2); results and fibers
# are printed and stack-traced; pegs are matched against 6 inputs; then everything is collected while
# live and again when dead.

(var- ex-step "")
(var- ex-budget 20)
(var- ex-interrupts 0)
(var- ex-calls 0)

(defn ex-mark [s]
  (set ex-step s)
  (when (dyn :c10-trace) (eprint "C10-STEP " s) (eflush)))

(defn ex-current-step [] ex-step)

(defn- norm-msg
  "Error payload -> short stable text (numbers and addresses blanked)."
  [e]
  (def s (if (bytes? e) (string e) (string "<" (type e) ">")))
  (def b @"")
  (var in-num false)
  (each c (string/slice s 0 (min 60 (length s)))
    (if (and (>= c 48) (<= c 57))
      (unless in-num (set in-num true) (buffer/push-byte b 78))
      (do (set in-num false)
        (buffer/push-byte b (if (or (< c 32) (> c 126)) 63 c)))))
  (string b))

(def- sig-codes {0 "r" 1 "e" 2 "d" 3 "y" 12 "i" 13 "w"})

(defn- budget-resume
  "Resume fb with value v under the CPU budget. Returns [code value]."
  [fb v]
  (++ ex-calls)
  (if-let [br (dyn :c10-resume)]
    (let [[sig out fired] (br fb v ex-budget)]
      (when fired (++ ex-interrupts) (set ex-budget 5))
      [(if fired "i" (get sig-codes sig "u")) out])
    (let [res (try [:ok (resume fb v)] ([err f] [:err err]))
          st (fiber/status fb)]
      [(case st :dead "r" :error "e" :debug "d" :pending "y" :suspended "y" :new "n" "u") (res 1)])))

(defn- resumable? [fb]
  (def st (fiber/status fb))
  (not (or (= st :dead) (= st :error) (= st :alive))))

(defn- walk
  "Collect functions, fibers and pegs reachable through containers (keys, values, prototypes)."
  [x]
  (def targets @[])
  (def seen @{})
  (var nodes 0)
  (defn go [v depth]
    (when (and (< nodes 400) (< depth 40) (< (length targets) 12))
      (++ nodes)
      (case (type v)
        :function (unless (in seen v) (put seen v true) (array/push targets v))
        :fiber (unless (in seen v) (put seen v true) (array/push targets v))
        :core/peg (unless (in seen v) (put seen v true) (array/push targets v))
        :tuple (each e v (go e (+ depth 1)))
        :array (unless (in seen v) (put seen v true) (each e v (go e (+ depth 1))))
        :struct (do
                  (eachp [k e] v (go k (+ depth 1)) (go e (+ depth 1)))
                  (when-let [p (struct/getproto v)] (go p (+ depth 1))))
        :table (unless (in seen v) (put seen v true)
                 (var k (next v nil))
                 (while (not= nil k)
                   (go k (+ depth 1))
                   (go (table/rawget v k) (+ depth 1))
                   (set k (next v k)))
                 (when-let [p (table/getproto v)] (go p (+ depth 1))))
        nil)))
  (go x 0)
  targets)

(defn- show
  "Print a value every way the property lists; all errors are caught (raising is allowed)."
  [x]
  (protect (string/format "%p|%v|%q|%m" x x x x))
  (protect (string/format "%j" x))
  (protect (describe x))
  (protect (string x))
  nil)

(defn- show-brief [x]
  (protect (string/format "%p" x))
  nil)

(defn- show-fiber [fb out]
  (protect (fiber/status fb))
  (protect (fiber/last-value fb))
  (protect (fiber/getenv fb))
  (protect (with-dyns [:err @""] (debug/stacktrace fb out "")))
  nil)

(defn- arg-values [variant self]
  (case variant 0 [] 1 [nil] 2 [1 2 3] [self]))

(defn- resume-value [variant self]
  (case variant 0 nil 1 1 2 [1 2 3] self))

(def- peg-inputs ["" "a" "abc" "xyy" "(())" "aab,c\x00\x01\xff12"])

(defn- peg-battery
  "All matches of one peg; returns a bit mask of the inputs that matched."
  [t]
  (var mask 0)
  (eachp [i inp] peg-inputs
    (def r (protect (peg/match t inp 0 :arg0 1)))
    (when (and (r 0) (r 1)) (set mask (bor mask (blshift 1 i)))))
  (protect (peg/find t "xxabc"))
  (protect (peg/replace-all t "R" "abcabc"))
  mask)

(varfn exercise-target [t variant depth codes] nil)

(defn- follow [out variant depth codes]
  (when (and (< depth 2) (< ex-calls 40))
    (case (type out)
      :function (exercise-target out variant (+ depth 1) codes)
      :fiber (exercise-target out variant (+ depth 1) codes)
      :tuple (each e (tuple/slice out 0 (min 4 (length out)))
               (when (or (function? e) (fiber? e)) (exercise-target e variant (+ depth 1) codes)))
      :array (each e (array/slice out 0 (min 4 (length out)))
               (when (or (function? e) (fiber? e)) (exercise-target e variant (+ depth 1) codes)))
      nil)))

(varfn exercise-target [t variant depth codes]
  (case (type t)
    :function
    (do
      (ex-mark (string "call/v" variant "/d" depth))
      (def args (arg-values variant t))
      (def fb (fiber/new (fn [] (t ;args)) :a))
      (def r0 (budget-resume fb nil))
      (var code (r0 0))
      (var out (r0 1))
      (buffer/push codes code)
      (var n 0)
      (while (and (< n 2) (not= code "i") (resumable? fb))
        (++ n)
        (ex-mark (string "call-resume/v" variant "/d" depth))
        (def r1 (budget-resume fb (resume-value variant t)))
        (set code (r1 0))
        (set out (r1 1))
        (buffer/push codes code))
      (ex-mark (string "call-show/v" variant "/d" depth))
      (show-brief out)
      (show-fiber fb out)
      (follow out variant depth codes))
    :fiber
    (do
      (var n 0)
      (var code "")
      (var out nil)
      (while (and (< n 3) (not= code "i") (resumable? t))
        (++ n)
        (ex-mark (string "resume/v" variant "/d" depth "/n" n))
        (def r1 (budget-resume t (resume-value variant t)))
        (set code (r1 0))
        (set out (r1 1))
        (buffer/push codes code))
      (when (= n 0) (buffer/push codes "-"))
      (ex-mark (string "resume-show/v" variant "/d" depth))
      (show-brief out)
      (show-brief t)
      (show-fiber t out)
      (follow out variant depth codes))
    :core/peg
    (when (= variant 0)
      (ex-mark "peg-match")
      (if-let [fk (dyn :c10-fork)]
        (let [[kind code] (fk (fn [] (peg-battery t)) 1)]
          (cond
            (and (= kind :exit) (< code 64)) (buffer/push codes "p" (string code))
            (= kind :exit) (do
                             # the child died with a sanitizer report (already on stderr): die the same way
                             (eprint "C10-CHILD-EXIT " code)
                             (eflush)
                             (os/exit code true))
            (= code 24) (buffer/push codes "pL")   # CPU limit: the grammar loops (legal)
            (do (eprint "C10-CHILD-SIGNAL " code) (eflush) (os/exit 98 true))))
        (buffer/push codes "p" (string (peg-battery t)))))
    nil))

(defn exercise
  ``Run the whole battery. `make` is a function of an optional image that loads the value (it is
  called several times: loaded objects are consumed by resuming them). `remarshal` is a function
  value -> image. Returns a one-line summary.``
  [make remarshal]
  (set ex-budget 20)
  (set ex-interrupts 0)
  (set ex-calls 0)
  (ex-mark "load")
  (def r (protect (make)))
  (if-not (r 0)
    (do
      (ex-mark "gc-after-reject")
      (gccollect)
      (string "R " (norm-msg (r 1))))
    (do
      (def x (r 1))
      (def keep @[x])
      (def codes @"")
      (ex-mark "print")
      (show x)
      (ex-mark "hash")
      (protect (hash x))
      (protect (put @{} x 1))
      (ex-mark "load-sibling")
      (def sib (protect (make)))
      (array/push keep sib)
      (ex-mark "compare")
      (protect (= x (get sib 1)))
      (protect (compare x (get sib 1)))
      (protect (compare (get sib 1) x))
      (protect (< x (get sib 1)))
      (protect (= x x))
      (ex-mark "marshal-again")
      (def again (protect (remarshal x)))
      (buffer/push codes (if (again 0) "M" "m"))
      (when (again 0)
        (ex-mark "load-again")
        (def x2 (protect (make (again 1))))
        (array/push keep x2)
        (buffer/push codes (if (x2 0) "U" "u"))
        (when (x2 0) (ex-mark "print-again") (show-brief (x2 1))))
      (ex-mark "walk")
      (def targets (walk x))
      (ex-mark "gc-live")
      (gccollect)
      (when (> (length targets) 0)
        (for variant 0 4
          (buffer/push codes " ")
          (def xv (if (= variant 0) x
                    (do (ex-mark (string "load/v" variant))
                      (get (protect (make)) 1))))
          (array/push keep xv)
          (ex-mark (string "walk/v" variant))
          (each t (walk xv)
            (when (< ex-calls 40)
              (exercise-target t variant 0 codes))))
        (ex-mark "print-final")
        (show x)
        (ex-mark "gc-final-live")
        (gccollect))
      (array/clear keep)
      (string "A " (type x) " t" (length targets) " " codes (if (> ex-interrupts 0) " |I" "")))))

(defn exercise-done
  "Called by the driver after `exercise` returned and its values are garbage."
  []
  (ex-mark "gc-dead")
  (gccollect)
  (ex-mark "idle"))
