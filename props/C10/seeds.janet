# C10 seeds: a fixed list of values; each is built at run time and turned into an image by the real
# `marshal` with the restricted registry below. Usage: vjanet seeds.janet  -> lines  name<TAB>hex
#
# The registry is deliberately tiny and harmless: a mutated image can only name these entries, so
# mutated bytecode can never reach os/, file/, ev/ or net/ functions.

(def registry-names
  '[tuple string type array/push fiber/new fiber/status fiber/last-value buffer/push-string struct dyn])

(defn make-lookup
  "Fresh forward lookup table (symbol -> value) for one unmarshal."
  []
  (def t @{})
  (each n registry-names (put t n ((root-env n) :value)))
  (put t 'c10/regtable @{:reg 1})
  t)

(def seed-forms
  ~[
    # --- scalars: every integer width, reals, constants
    [v-nil nil] [v-true true] [v-false false]
    [i0 0] [i1 1] [i127 127] [i128 128] [im1 -1] [i8191 8191] [i8192 8192] [im8192 -8192] [im8193 -8193]
    [imax 2147483647] [imin -2147483648] [i65536 65536]
    [r1.5 1.5] [rnan math/nan] [rinf math/inf] [rbig 1e300] [r2p32 4294967296] [rtiny 5e-324]
    # --- byte sequences
    [s-empty ""] [s-a "a"] [s-hello "hello"] [s-127 (string/repeat "x" 127)] [s-128 (string/repeat "y" 128)]
    [s-bin "\x00\xff\xc8\xda\x80"]
    [k-empty (keyword "")] [k-a :a] [k-long :a-longer-keyword] [y-a 'a] [y-long 'some/symbol-name]
    [b-empty @""] [b-abc @"abc"] [b-130 (buffer/new-filled 130 65)]
    # --- containers
    [t-empty []] [t-123 [1 2 3]] [t-paren '(1 2)] [t-brackets '[1 2]] [t-nested [[1] [[2]] []]]
    [t-mixed [nil true 1.5 "s" :k 'y @"b"]]
    [a-empty @[]] [a-123 @[1 2 3]] [a-nested @[@[1] [2] {3 4} @{5 6}]] [a-weak (let [a (array/weak 2)] (array/push a "w" @"x") a)]
    [st-empty {}] [st-a {:a 1}] [st-3 {:a 1 "b" 2 3 [4]}] [st-proto (struct/with-proto {:a 1} :b 2)]
    [st-proto2 (struct/with-proto (struct/with-proto {:a 1} :b 2) :c 3)]
    [tb-empty @{}] [tb-a @{:a 1}] [tb-3 @{:a 1 "b" @[2] 3 {4 5}}] [tb-proto (table/setproto @{:x 1} @{:y 2})]
    [tb-proto2 (table/setproto @{:x 1} (table/setproto @{:y 2} @{:z 3}))]
    [tb-wk (let [t (table/weak-keys 2)] (put t "k" 1) t)]
    [tb-wv (let [t (table/weak-values 2)] (put t :k "v") t)]
    [tb-wkv (let [t (table/weak 2)] (put t "k" "v") t)]
    [tb-wk-proto (let [t (table/weak-keys 2)] (put t "k" 1) (table/setproto t @{:p 1}))]
    [tb-wv-proto (let [t (table/weak-values 2)] (put t :k "v") (table/setproto t @{:p 1}))]
    [tb-wkv-proto (let [t (table/weak 2)] (put t "k" "v") (table/setproto t @{:p 1}))]
    # --- back references and cycles
    [ref-str (let [s "shared"] [s s s])]
    [ref-kw [:same :same 'sy 'sy]]
    [ref-real [1.5 1.5 2.5 1.5]]
    [ref-buf (let [b @"bb"] [b b])]
    [ref-arr (let [a @[1]] @[a a a])]
    [ref-tup (let [t [1 2]] @[t t])]
    [ref-struct (let [s {:a 1}] @[s s])]
    [ref-tab (let [t @{:a 1}] [t t])]
    [cyc-arr (let [a @[]] (array/push a a) a)]
    [cyc-arr2 (let [a @[1] b @[2]] (array/push a b) (array/push b a) a)]
    [cyc-tab (let [t @{}] (put t :self t) t)]
    [cyc-tab-key (let [t @{}] (put t t 1) t)]
    [cyc-proto (let [t @{} p @{}] (put p :child t) (table/setproto t p))]
    [cyc-tup-arr (let [a @[]] (array/push a [a {:a a}]) a)]
    # --- registry
    [reg-cfun tuple] [reg-two [tuple tuple string]] [reg-table (dyn :c10-regtable)] [reg-in-tab @{:f type :g [fiber/status]}]
    # --- abstract types
    [s64-5 (int/s64 5)] [s64-min (int/s64 "-9223372036854775808")] [s64-big (int/s64 "4294967296")]
    [u64-300 (int/u64 300)] [u64-max (int/u64 "18446744073709551615")] [u64-two (let [x (int/u64 7)] [x x (int/s64 7)])]
    [rng (math/rng 42)]
    [peg-lit (peg/compile "abc")]
    [peg-seq (peg/compile ~(* (some (range "az")) (? "x") -1))]
    [peg-caps (peg/compile ~(* (<- (some (set "abc")) :t) (backmatch :t) (constant 7) (replace (<- 1) :kw) (position) (line) (column)))]
    [peg-gram (peg/compile ~{:a "x" :b (any "y") :main (* :a :b (not "z") (if "q" 1) (look 0 "q") (between 1 3 "q") (+ "r" "q"))})]
    [peg-misc (peg/compile ~(* (to "x") (thru "x") (drop (<- 1)) (accumulate (* (<- 1) (<- 1))) (group (<- 1)) (argument 0) (lenprefix (number 1) "a") (uint 2) (uint 1) (? (error "e"))))]
    [peg-misc2 (peg/compile ~(* (sub (<- 2) 1) (split "," (<- 1)) (unref (<- 1 :u)) (nth 0 (* (<- 1) (<- 1))) (only-tags (<- 1 :o)) (til "e" 1) (-> :o) (cmt (<- 1) ,(fn [x] x)) (if-not "a" 1) (at-most 2 "b") (repeat 2 "c") -3))]
    [peg-rec (peg/compile ~{:main (+ (* "(" :main ")") "")})]
    [chan-0 (ev/chan 0)]
    [chan-3 (let [c (ev/chan 3)] (ev/give c 1) (ev/give c "two") c)]
    [chan-closed (let [c (ev/chan 2)] (ev/give c :x) (ev/chan-close c) c)]
    [chan-wrap (let [c (ev/chan 2)] (ev/give c 1) (ev/give c 2) (ev/take c) (ev/give c 3) c)]
    # --- functions
    [f-nil (fn [] nil)]
    [f-id (fn [x] x)]
    [f-named (fn named [x y] (+ x y))]
    [f-const (fn [] '(1.5 "s" :k sym @[1] {:a 1} [2 3]))]
    [f-vararg (fn [x & r] (tuple x r))]
    [f-keys (fn [&keys k] k)]
    [f-named-args (fn [&named a b] [a b])]
    [f-opt (fn [a &opt b] (if b a [a]))]
    [f-loop (fn [] (var s 0) (for i 0 10 (+= s i)) s)]
    [f-loop-n (fn [n] (var s 0) (var i 0) (while (< i 5) (+= s i) (++ i)) [n s])]
    [f-ops (fn [&opt a] (def x (or a 3)) [(+ x 1) (- x 1) (* x 2) (/ x 2) (% x 2) (band x 3) (bor x 4) (bxor x 5) (blshift x 1) (brshift x 1) (brushift x 1) (< x 1) (<= x 1) (> x 1) (>= x 1) (= x 1) (not= x 1) (length [x]) (in [x] 0) (get @{} x) (bnot x)])]
    [f-data (fn [&opt a] (def t @{}) (put t :a a) (def arr @[a a]) (array/push arr t) {:t t :arr arr :s (string a "x") :b (buffer/push-string @"" "q") :ty (type a) :st (struct :k a)})]
    [f-calls (fn [&opt a] (defn g [x] (tuple x x)) (defn h [x] (g (g x))) (h a))]
    [f-err (fn [&opt a] (if a (error a) (error "boom")))]
    [f-try (fn [&opt a] (try (error a) ([e] [:caught e])))]
    [f-yield (fn [&opt a] (yield a) (yield 2) 3)]
    [f-fiber (fn [&opt a] (def fb (fiber/new (fn [] (yield a) 7) :y)) [(resume fb) (fiber/status fb) (resume fb) (fiber/status fb)])]
    [f-propagate (fn [&opt a] (def fb (fiber/new (fn [] (error a)) :e)) (resume fb) (propagate (fiber/last-value fb) fb))]
    [f-closure (do (var c 0) (fn [] (++ c)))]
    [f-closure-2 (do (var c 0) [(fn [] (++ c)) (fn [&opt x] (if x (set c x) c))])]
    [f-samedef (do (defn mk [x] (fn [] x)) [(mk 1) (mk "two")])]
    [f-nested (fn [x] (fn [y] (fn [z] [x y z])))]
    [f-nested-applied (((fn [x] (fn [y] (fn [z] [x y z]))) 1) 2)]
    [f-counter (fn [&opt start] (var n (or start 0)) (fn [] (++ n)))]
    [f-two-envs (do (var a 1) ((fn [] (var b 2) (fn [] (+= a 1) (+= b 1) [a b]))))]
    [f-recursive (do (defn fact [n] (if (and (= :number (type n)) (> n 0)) (* n (fact (- n 1))) 1)) fact)]
    [f-debug :debug (fn dbg [a b] (def c [a b]) (var d c) (set d [c d]) [a b c d])]
    [f-debug-closure :debug (do (var up 5) (fn [a] (def loc (+ a up)) (fn [] (+ loc up))))]
    [f-self-ref (do (def holder @[]) (def f (fn [] (length holder))) (array/push holder f) f)]
    [f-onstack (do (def fb (fiber/new (fn [] (var x 10) (yield (fn [] (++ x))) x))) (resume fb))]
    [f-onstack-2 (do (def fb (fiber/new (fn [a] (var x 10) (var y 20) (yield [(fn [] (++ x)) (fn [] (+ x y))]) [x y]))) (resume fb))]
    # --- fibers
    [fb-new (fiber/new (fn [] 1))]
    [fb-new-arg (fiber/new (fn [x] [x]))]
    [fb-yielded (let [f (fiber/new (fn [] (yield 1) (yield 2) 3))] (resume f) f)]
    [fb-yielded-arg (let [f (fiber/new (fn [x] (def y (yield x)) (def z (yield [x y])) [x y z]))] (resume f :first) f)]
    # heap values that are referenced from stack slots only (a frame the collector skips shows as a use after free)
    [fb-heap-arg (let [f (fiber/new (fn [x] (def y (yield 1)) [x y]))] (resume f (string/repeat "Q" 100)) f)]
    [fb-heap-local (let [f (fiber/new (fn [] (def b (buffer/push-string @"" "local-" "zzzzzzzzzzzzzzzzzzzzzzzzzzzzzzzzzzzzzzzz")) (def t @{:k (string "vvvvvvvvvvvvvvvvvvvvvvvvvvvvvvvvvvvvvvvv" "w")}) (yield 1) [b t]))] (resume f) f)]
    [fb-frames (let [f (fiber/new (fn [] (defn g [x] (def r (yield x)) [x r]) (tuple 1 (g 5))))] (resume f) f)]
    [fb-frames-3 (let [f (fiber/new (fn [] (defn h [x] (yield x) x) (defn g [x & more] (tuple (h x) more)) (tuple (g 1 2 3))))] (resume f) f)]
    [fb-dead (let [f (fiber/new (fn [] 1))] (resume f) f)]
    [fb-error (let [f (fiber/new (fn [] (error "boom")) :e)] (resume f) f)]
    [fb-debug (let [f (fiber/new (fn [] (debug) 5) :d)] (resume f) f)]
    [fb-env (let [f (fiber/new (fn [] (yield (dyn :x)) (dyn :x)) :y @{:x 1})] (resume f) f)]
    [fb-env-new (fiber/new (fn [] (dyn :x)) :y @{:x @[1]})]
    [fb-child (let [child (fiber/new (fn [] (yield 1) 2) :e)
                    parent (fiber/new (fn [] [(resume child)]) :y)]
                (resume parent) parent)]
    [fb-child-2 (let [c2 (fiber/new (fn [] (yield :deep) :c2) :e)
                      c1 (fiber/new (fn [] [(resume c2)]) :e)
                      parent (fiber/new (fn [] [(resume c1)]) :y)]
                  (resume parent) parent)]
    [fb-closure-env (let [f (fiber/new (fn [] (var x 1) (def inc (fn [] (++ x))) (yield inc) (inc) x))] (resume f) f)]
    [fb-loop (let [f (fiber/new (fn [] (var i 0) (while (< i 3) (yield i) (++ i)) :done))] (resume f) (resume f) f)]
    [fb-self (let [box @[] f (fiber/new (fn [] (yield 1) (length box)))] (array/push box f) (resume f) f)]
    [fb-pair (let [f (fiber/new (fn [] (yield 1) 2))] (resume f) [f f])]
    # --- composites
    [mod (do (var n 0) @{:inc (fn [] (++ n)) :get (fn [] n) :data [1 "two" :three] :fb (fiber/new (fn [] (yield n) n))})]
    [mix @[(int/s64 1) (peg/compile "a") {:f (fn [x] [x])} (ev/chan 1) 1.5 "s" tuple]]
   ])

(defn build-seed
  "Evaluate one seed form and marshal the value. Returns the image as a string."
  [entry]
  (def name (first entry))
  (def dbg (= :debug (get entry 1)))
  (def form (last entry))
  (def env (make-env root-env))
  (def lookup (make-lookup))
  (put env :c10-regtable (lookup 'c10/regtable))
  (def rev (invert lookup))
  (def value
    (with-dyns [:debug (if dbg true nil)]
      (def thunk (compile form env "s"))
      (unless (function? thunk) (errorf "seed %v does not compile: %v" name thunk))
      (def fb (fiber/new thunk :e env))
      (def res (resume fb))
      (when (= :error (fiber/status fb)) (errorf "seed %v raised %v" name res))
      res))
  (string (marshal value rev)))

(defn all-seeds []
  (seq [e :in seed-forms] [(string (first e)) (build-seed e)]))

(defn hex [s] (string/join (map |(string/format "%02x" $) s)))

(defn main [&]
  (each [n img] (all-seeds)
    (print n "\t" (hex img))))
