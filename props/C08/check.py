#!/usr/bin/env python3
"""C08 - threads and thread channels deliver every message exactly once, race-free.

Stateless model checking of the real interpreter under a controlled scheduler
(engine/harness/vsched.c): all OS threads created by janet are serialised and run
from scheduling point to scheduling point (mutex lock/unlock, atomic inc/dec,
read/write-family calls, epoll_wait, thread creation and exit; blocking is
modelled, virtual time passes only when nobody can run). Every small closed
scenario is explored depth-first with ITERATIVE PREEMPTION BOUNDING (all
schedules with 0 preemptions, then 1, then 2): each execution is a fresh process
replaying a recorded choice prefix, then taking the default choice. Oracles per
scenario: exactly-once delivery, structural equality, per-sender order, select
returns one clause, close wakes waiters, no deadlock, process exits, ev/thread
returns after its body. A free-running ThreadSanitizer pass over the same
scenario bodies reports unsynchronised accesses (it can only add reports).
"""
import collections
import os
import re
import shutil
import sys
import threading
from concurrent.futures import ThreadPoolExecutor, wait, FIRST_COMPLETED

HERE = os.path.dirname(os.path.abspath(__file__))
sys.path.insert(0, os.path.join(HERE, "..", "..", "engine", "mc"))
from core import *  # noqa
HERE = os.path.dirname(os.path.abspath(__file__))

# ------------------------------------------------------------------ scenarios

MSG = {
    "num": "(fn [p i] (+ (* p 100) i))",
    "str": "(fn [p i] (string \"msg-\" p \"-\" i))",
    "tup": "(fn [p i] [p [i @[p i]] {:k i}])",
    "tab": "(fn [p i] @{:p p :i i :s (string p \":\" i)})",
}

HEADER = """
(def mk {mk})
(defn show [x] (string/format "%j" x))
"""


def s1(k, cap, shape):
    src = HEADER.format(mk=MSG[shape]) + """
(def tc (ev/thread-chan {cap}))
(ev/thread (fn [[tc mk]] (for i 0 {k} (ev/give tc (mk 1 i)))) [tc mk] :n)
(def got @[])
(repeat {k} (array/push got (ev/take tc)))
(print "got " (show got))
(print "want " (show (seq [i :range [0 {k}]] (mk 1 i))))
(os/exit 0)
""".format(k=k, cap=cap)
    return "S1-producer-to-main:k%d:cap%d:%s" % (k, cap, shape), src


def s2(k, cap):
    src = HEADER.format(mk=MSG["num"]) + """
(def tc (ev/thread-chan {cap}))
(for p 1 3 (ev/thread (fn [[tc mk p]] (for i 0 {k} (ev/give tc (mk p i)))) [tc mk p] :n))
(def got @[])
(repeat {n} (array/push got (ev/take tc)))
(print "got " (show got))
(os/exit 0)
""".format(k=k, cap=cap, n=2 * k)
    return "S2-two-producers:k%d:cap%d" % (k, cap), src


def s3(k, cap):
    src = HEADER.format(mk=MSG["num"]) + """
(def tc (ev/thread-chan {cap}))
(def res (ev/thread-chan 4))
(for c 0 2
  (ev/thread (fn [[tc res c]]
               (def mine @[])
               (forever (def v (ev/take tc)) (if (= v :stop) (break)) (array/push mine v))
               (ev/give res [c mine]))
             [tc res c] :n))
(for i 0 {k} (ev/give tc (mk 1 i)))
(ev/give tc :stop) (ev/give tc :stop)
(def a (ev/take res)) (def b (ev/take res))
(print "got " (show (sort @[a b])))
(os/exit 0)
""".format(k=k, cap=cap)
    return "S3-two-consumers:k%d:cap%d" % (k, cap), src


def s4():
    src = HEADER.format(mk=MSG["num"]) + """
(def c1 (ev/thread-chan 1)) (def c2 (ev/thread-chan 1))
(def res (ev/thread-chan 4))
(ev/thread (fn [[c1 c2 res]] (def [op ch v] (ev/select c1 c2)) (ev/give res [:a op v])) [c1 c2 res] :n)
(ev/thread (fn [[c1 c2 res]] (def [op ch v] (ev/select c2 c1)) (ev/give res [:b op v])) [c1 c2 res] :n)
(ev/give c1 101) (ev/give c2 202)
(def a (ev/take res)) (def b (ev/take res))
(print "got " (show (sort @[a b])) " left " (ev/count c1) " " (ev/count c2))
(os/exit 0)
"""
    return "S4-select-opposite-orders", src


def s5(who):
    if who == "reader":
        body = "(def v (ev/take tc)) (ev/give res [:take v])"
        main = "(ev/chan-close tc)"
    else:
        body = "(def r1 (protect (ev/give tc 1))) (def r (protect (ev/give tc 2))) (ev/give res [:give (r 0)])"
        main = "(ev/chan-close tc)"
    src = HEADER.format(mk=MSG["num"]) + """
(def tc (ev/thread-chan 0)) (def res (ev/thread-chan 2)) (def ready (ev/thread-chan 1))
(ev/thread (fn [[tc res ready]] (ev/give ready true) %s) [tc res ready] :n)
(ev/take ready)
%s
(print "got " (show (ev/take res)))
(os/exit 0)
""" % (body, main)
    return "S5-close-while-%s-blocked" % who, src


def s6():
    src = HEADER.format(mk=MSG["num"]) + """
(def tc (ev/thread-chan 0)) (def go (ev/thread-chan 1)) (def done (ev/thread-chan 1))
(ev/thread (fn [[tc go done]] (ev/take go) (ev/give tc :late-message) (ev/give done true)) [tc go done] :n)
(def first-try (try (ev/with-deadline 1 (ev/take tc)) ([e] e)))
(ev/give go true)
(def second (try (ev/with-deadline 50 (ev/take tc)) ([e] [:error e])))
(print "got " (show [first-try second]))
(os/exit 0)
"""
    return "S6-receiver-abandons-then-receives", src


def s7(kind):
    body = "(fn [&] 42)" if kind == "returns" else "(fn [&] (error :boom))"
    src = HEADER.format(mk=MSG["num"]) + """
(def sup (ev/thread-chan 4))
(ev/thread %s nil :n sup)
(def ev1 (ev/take sup))
(print "got " (show [(ev1 0) (ev/count sup)]))
(os/exit 0)
""" % body
    return "S7-supervisor:%s" % kind, src


def s8():
    src = HEADER.format(mk=MSG["num"]) + """
(def tc (ev/thread-chan 2))
(ev/thread (fn [tc] (ev/give tc :effect-1) (ev/give tc :effect-2)) tc)
(print "got " (show [(ev/count tc) (ev/take tc) (ev/take tc)]))
(os/exit 0)
"""
    return "S8-waiting-thread-call-returns-after-body", src


def s9():
    src = HEADER.format(mk=MSG["num"]) + """
(def outer (ev/thread-chan 1)) (def res (ev/thread-chan 1))
(ev/thread (fn [[outer res]]
             (def inner (ev/take outer))
             (gccollect)
             (ev/give res (ev/take inner)))
           [outer res] :n)
(do (def inner (ev/thread-chan 1)) (ev/give inner :through-inner) (ev/give outer inner))
(gccollect)
(print "got " (show (ev/take res)))
(gccollect)
(os/exit 0)
"""
    return "S9-channel-through-channel", src


def s10():
    src = HEADER.format(mk=MSG["num"]) + """
(def lock (ev/lock)) (def res (ev/thread-chan 4))
(for t 0 2
  (ev/thread (fn [[lock res t]]
               (repeat 2 (ev/acquire-lock lock) (ev/release-lock lock))
               (ev/give res t))
             [lock res t] :n))
(def a (ev/take res)) (def b (ev/take res))
(print "got " (show (sort @[a b])))
(os/exit 0)
"""
    return "S10-shared-lock", src


def s11(first):
    """two pending readers of different kinds on one thread channel; the first abandons its wait"""
    if first == "select":
        r1 = "(try (ev/with-deadline 1 (ev/select tc)) ([e] :timed-out))"
        r2 = "(ev/take tc)"
    else:
        r1 = "(try (ev/with-deadline 1 (ev/take tc)) ([e] :timed-out))"
        r2 = "(ev/select tc)"
    src = HEADER.format(mk=MSG["num"]) + """
(def tc (ev/thread-chan 0)) (def res (ev/thread-chan 4)) (def go (ev/thread-chan 1)) (def fin (ev/thread-chan 0))
# the first thread stays alive (blocked on `fin`) so that its stale entry does not point at a dead thread
(ev/thread (fn [[tc res go fin]] (def r %s) (ev/give res [:first r]) (ev/give go true) (ev/take fin)) [tc res go fin] :n)
(ev/thread (fn [[tc res]] (def r %s) (ev/give res [:second (if (indexed? r) [(r 0) (r 2)] r)])) [tc res] :n)
(ev/take go)
(ev/sleep 2)
(ev/give tc 777)
(def a (ev/take res)) (def b (ev/take res))
(print "got " (show (sort @[a b])))
(os/exit 0)
""" % (r1, r2)
    return "S11-stale-%s-then-other-reader" % first, src


def s12():
    """request/reply: the reply channel travels through the request channel, the worker answers on it,
    forgets it and collects twice; the requester keeps using its own reference afterwards"""
    src = HEADER.format(mk=MSG["num"]) + """
(def req (ev/thread-chan 1)) (def done (ev/thread-chan 1))
(ev/thread (fn [[req done]]
             (for i 0 2
               (def [reply x] (ev/take req))
               (ev/give reply [:result x])
               (gccollect) (gccollect))
             (ev/give done true))
           [req done] :n)
(def out @[])
(for i 0 2
  (def reply (ev/thread-chan 1))
  (ev/give req [reply i])
  (array/push out (ev/take reply))
  (gccollect)
  # the requester's reference must still be valid after the worker dropped its own
  (ev/give reply :again) (array/push out (ev/take reply)))
(ev/take done)
(gccollect)
(print "got " (show out))
(os/exit 0)
"""
    return "S12-reply-channel-dropped-by-worker", src


def s13():
    """a message in flight to a stale registration is re-queued (at the head) while the channel's ring buffer is wrapped
    and full: W's select is satisfied through c1, its registration on c stays behind; the first message on c goes to that
    registration, meanwhile main gives 3, takes 2, gives 2 (a 4-slot ring wraps); when W's loop gets the in-flight message
    it finds the fiber gone and puts the message back"""
    src = HEADER.format(mk=MSG["num"]) + """
(def c1 (ev/thread-chan 8)) (def c (ev/thread-chan 8)) (def ack (ev/thread-chan 8)) (def fin (ev/thread-chan 8))
(ev/thread (fn [[c1 c ack fin]]
             (def r (ev/select c1 c))
             (ev/give ack (r 0))
             (ev/take fin)
             (ev/give ack :done))
           [c1 c ack fin] :n)
(ev/sleep 1)          # W registers on both channels
(ev/give c1 :go)
(def first-ack (ev/take ack))
(def taken @[])
(ev/give c 1)
(ev/give c 2) (ev/give c 3) (ev/give c 4)
(array/push taken (ev/take c)) (array/push taken (ev/take c))
(ev/give c 5) (ev/give c 6)
(ev/give fin true)
(def second-ack (ev/take ack))
(ev/sleep 1)          # a re-dispatched message may still be on its way back
(repeat (ev/count c) (array/push taken (ev/take c)))
(print "got " (show [first-ack second-ack taken]))
(os/exit 0)
"""
    return "S13-requeue-into-wrapped-ring", src


def s14(n):
    """a burst of cross-thread events for one thread: n fibers of the main thread wait on one thread channel, a producer
    thread gives n values while the main thread does not poll; every value must arrive"""
    src = HEADER.format(mk=MSG["num"]) + """
(def tc (ev/thread-chan %d)) (def res (ev/chan %d))
(for i 0 %d (ev/go (fn [] (ev/give res (ev/take tc)))))
(ev/sleep 0)
(def fin (ev/chan 1))
# the producer is joined before the process exits (a thread that is still posting while main tears down is S4's subject)
(ev/go (fn [] (ev/thread (fn [tc] (for i 0 %d (ev/give tc (+ 100 i)))) tc) (ev/give fin true)))
(ev/sleep 0)
(ev/count tc)     # scheduling points outside epoll_wait: with one preemption the whole burst happens here, before main polls
(def got @[])
(repeat %d (array/push got (ev/take res)))
(ev/take fin)
(print "got " (show (sort got)))
(os/exit 0)
""" % (n + 8, n, n, n, n)
    return "S14-burst-of-%d-to-one-thread" % n, src


def s15():
    """messages that carry a channel the receiver already knows, followed by a value that occurs twice (back reference)"""
    src = HEADER.format(mk=MSG["num"]) + """
(def req (ev/thread-chan 1)) (def rep (ev/thread-chan 1))
(def fin (ev/chan 1))
(ev/go (fn [] (ev/thread (fn [[req]]
                           (for i 0 3
                             (def m (ev/take req))
                             (ev/give (m 0) [(m 1) (m 2) (m 3) (= (m 1) (m 3))])))
                         [req])
         (ev/give fin true)))
(def out @[])
(for i 0 3
  (def a @[i 2 3]) (def b @{:k "v"})
  (ev/give req [rep a b a])
  (array/push out (ev/take rep)))
(ev/take fin)
(print "got " (show out))
(os/exit 0)
"""
    return "S15-known-channel-then-repeated-value", src


def s16(cap):
    """a worker thread reports progress with ev/give-supervisor faster than the supervisor reads (channel capacity cap):
    every report and the final event must arrive, in order, and the worker must finish"""
    src = HEADER.format(mk=MSG["num"]) + """
(def sup (ev/thread-chan %d))
(ev/thread (fn [&] (for i 0 4 (ev/give-supervisor :progress i)) :worker-result) nil :n sup)
(ev/sleep 2)        # the supervisor is busy: reports pile up against the capacity
(def out @[])
(repeat 5 (def ev (ev/take sup)) (array/push out (if (= :progress (ev 0)) (ev 1) [(ev 0) (ev 1)])))
(ev/sleep 1)
(print "got " (show out) " left " (ev/count sup))
(os/exit 0)
""" % cap
    return "S16-give-supervisor:cap%d" % cap, src


def s17():
    """an ev/thread call abandoned at its deadline; the thread finishes afterwards, while its former caller is blocked in
    ev/take on a thread channel: the take must return what was given there, exactly once"""
    src = HEADER.format(mk=MSG["num"]) + """
(def gate (ev/thread-chan 1)) (def tc (ev/thread-chan 0)) (def done (ev/thread-chan 1))
(def r1 (try (ev/with-deadline 1 (ev/thread (fn [[gate done]] (ev/take gate) (ev/give done true) :late) [gate done]))
          ([e] :timed-out)))
(ev/give gate true)
(ev/take done)      # the abandoned thread is finishing: its completion is on its way to this thread
(ev/thread (fn [tc] (ev/sleep 1) (ev/give tc 555)) tc :n)
(def r2 (ev/take tc))
(ev/sleep 1)
(print "got " (show [r1 r2]) " left " (ev/count tc))
(os/exit 0)
"""
    return "S17-abandoned-call-then-take", src


def parse_j(text):
    return text


def oracle(name, out):
    """returns None or a (kind, text) problem from the scenario's stdout"""
    lines = dict(l.split(" ", 1) for l in out.strip().split("\n") if " " in l)
    got = lines.get("got")
    if got is None:
        return ("no-result", "scenario printed %r" % out)
    # %j prints tuples with parentheses: normalise brackets
    got = got.replace("(", "[").replace(")", "]")
    if "want" in lines:
        lines["want"] = lines["want"].replace("(", "[").replace(")", "]")
    if name.startswith("S1-"):
        if got != lines.get("want"):
            return ("wrong-delivery", "received %s, sent %s" % (got, lines.get("want")))
    elif name.startswith("S2"):
        k = int(re.search(r"k(\d+)", name).group(1))
        vals = [int(x) for x in re.findall(r"-?\d+", got)]
        want = sorted([100 + i for i in range(k)] + [200 + i for i in range(k)])
        if sorted(vals) != want:
            return ("lost-or-duplicated", "received %s, sent %s" % (vals, want))
        for p in (1, 2):
            mine = [v for v in vals if v // 100 == p]
            if mine != sorted(mine):
                return ("order", "producer %d's messages arrived as %s" % (p, mine))
    elif name.startswith("S3"):
        k = int(re.search(r"k(\d+)", name).group(1))
        m = re.match(r"@\[\[0 @?\[(.*?)\]\] \[1 @?\[(.*?)\]\]\]", got)
        if not m:
            return ("no-result", "unexpected %s" % got)
        a = [int(x) for x in m.group(1).split()] if m.group(1).strip() else []
        b = [int(x) for x in m.group(2).split()] if m.group(2).strip() else []
        if sorted(a + b) != [100 + i for i in range(k)]:
            return ("lost-or-duplicated", "consumers received %s and %s" % (a, b))
        if a != sorted(a) or b != sorted(b):
            return ("order", "consumers received %s and %s" % (a, b))
    elif name.startswith("S4"):
        m = re.match(r"@\[\[:a :take (\d+)\] \[:b :take (\d+)\]\] left (\d) (\d)", got)
        if not m:
            return ("select-result", "unexpected %s" % got)
        va, vb, l1, l2 = map(int, m.groups())
        if sorted([va, vb]) != [101, 202] or l1 != 0 or l2 != 0:
            return ("lost-or-duplicated", "selects took %d and %d, left %d %d" % (va, vb, l1, l2))
    elif name.startswith("S5-close-while-reader"):
        if got != "[:take nil]":
            return ("close-wakeup", "blocked reader got %s" % got)
    elif name.startswith("S5-close-while-writer"):
        if got not in ("[:give true]", "[:give false]"):
            return ("close-wakeup", "blocked writer got %s" % got)
    elif name.startswith("S6"):
        if got != '["deadline expired" :late-message]':
            return ("message-lost-after-abandoned-wait", "got %s" % got)
    elif name.startswith("S7"):
        want = "[:ok 0]" if "returns" in name else "[:error 0]"
        if got != want:
            return ("supervisor-event", "got %s want %s" % (got, want))
    elif name.startswith("S8"):
        if got != "[2 :effect-1 :effect-2]":
            return ("thread-call-returned-early", "got %s" % got)
    elif name.startswith("S9"):
        if got != ":through-inner":
            return ("wrong-delivery", "got %s" % got)
    elif name.startswith("S12"):
        if got != "@[[:result 0] :again [:result 1] :again]":
            return ("wrong-delivery", "got %s" % got)
    elif name.startswith("S11"):
        want = "@[[:first :timed-out] [:second 777]]" if "stale-select" in name else "@[[:first :timed-out] [:second [:take 777]]]"
        if got != want:
            return ("wrong-delivery", "got %s want %s" % (got, want))
    elif name.startswith("S13"):
        m = re.match(r"\[:take :done @\[([0-9 ]*)\]\]", got)
        if not m:
            return ("wrong-delivery", "got %s" % got)
        vals = [int(x) for x in m.group(1).split()]
        if sorted(vals) != [1, 2, 3, 4, 5, 6]:
            return ("lost-or-duplicated", "sent 1..6 on the channel, drained %s" % vals)
        rest = [v for v in vals if v != 1]
        if rest != sorted(rest):
            return ("order", "messages 2..6 (never in flight to a stale registration) arrived as %s" % rest)
    elif name.startswith("S14"):
        n = int(re.search(r"of-(\d+)-", name).group(1))
        vals = [int(x) for x in re.findall(r"\d+", got)]
        if vals != [100 + i for i in range(n)]:
            return ("lost-or-duplicated", "%d values given to one thread in a burst, received %s" % (n, vals))
    elif name.startswith("S15"):
        want = "@[" + " ".join('[@[%d 2 3] @{:k "v"} @[%d 2 3] true]' % (i, i) for i in range(3)) + "]"
        if got != want:
            return ("message-altered", "got %s want %s" % (got, want))
    elif name.startswith("S16"):
        if got != "@[0 1 2 3 [:ok :worker-result]] left 0":
            return ("supervisor-event", "reports and final event: %s" % got)
    elif name.startswith("S17"):
        if got != "[:timed-out 555] left 0":
            return ("wrong-delivery", "abandoned ev/thread call, then a take that was given 555: %s" % got)
    elif name.startswith("S10"):
        if got != "@[0 1]":
            return ("lock", "got %s" % got)
    return None


# ------------------------------------------------------------------ explorer

class Exec:
    __slots__ = ("prefix", "trace", "verdict", "out", "err", "rc", "timed_out")


def run_one(exe, path, prefix, tmpdir, idx, timeout=120):
    log = os.path.join(tmpdir, "t%d.log" % idx)
    spec = ",".join(map(str, prefix)) if prefix else "-"
    r = run(exe, [path], env={"VERIF_SCHED": spec, "VERIF_SCHED_LOG": log, "VERIF_VTIME": "1"}, timeout=timeout)
    e = Exec()
    e.prefix, e.out, e.err, e.rc, e.timed_out = prefix, r.out.decode(errors="replace"), r.err.decode(errors="replace"), r.rc, r.timed_out
    e.trace, e.verdict = [], "nolog"
    try:
        with open(log) as f:
            lines = f.read().split("\n")
        os.unlink(log)
        e.verdict = lines[0].split()[0]
        for l in lines[1:]:
            if l:
                n, c, ce, k = map(int, l.split())
                e.trace.append((n, c, ce, k))
    except (FileNotFoundError, IndexError, ValueError):
        pass
    return e


def explore(chk, variant, name, src, bound, tmpdir, max_exec):
    """iterative preemption bounding: returns (executions, distinct outcomes, completed bound)"""
    exe = vjanet(variant)
    path = os.path.join(tmpdir, re.sub(r"[^A-Za-z0-9]+", "_", name) + ".janet")
    with open(path, "w") as f:
        f.write(src)
    counter = [0]
    outcomes = collections.Counter()
    lock = threading.Lock()
    done_bound = -1
    seen_prefix = set()

    def judge(e):
        if e.verdict == "deadlock":
            shape = "mutex-cycle" if "waits for mutex" in e.err else "all-threads-waiting-for-events"
            return ("deadlock-" + shape, "no thread can run: %s" % e.err[-400:])
        if e.verdict == "horizon":
            return ("livelock-or-horizon", "more than the horizon of scheduling points")
        if e.verdict.startswith("harness-error"):
            raise HarnessError("%s prefix=%r: scheduler verdict %s rc=%s err=%s" % (name, e.prefix, e.verdict, e.rc, e.err[-500:]))
        if e.verdict == "nolog":
            # the process died without running its exit handlers (abort, signal)
            m = re.search(r"janet internal error at line \d+ in file \S+: (.*)", e.err)
            if m:
                return ("internal-error:" + re.sub(r"[^a-z]+", "-", m.group(1).lower()).strip("-"), e.err[-400:])
            if "AddressSanitizer" in e.err:
                m = re.search(r"AddressSanitizer: ([a-z-]+)", e.err)
                return ("asan-" + (m.group(1) if m else "report"), e.err[:1500])
            if e.rc is not None and e.rc < 0:
                return ("killed-by-signal-%d" % -e.rc, e.err[-400:])
            raise HarnessError("%s prefix=%r: no scheduler log, rc=%s err=%s" % (name, e.prefix, e.rc, e.err[-500:]))
        if e.timed_out:
            return ("hang", "execution did not finish")
        if e.rc != 0:
            if "AddressSanitizer" in e.err:
                m = re.search(r"AddressSanitizer: ([a-z-]+)", e.err)
                return ("asan-" + (m.group(1) if m else "report"), e.err[-1200:])
            return ("abnormal-exit", "rc=%s err=%s" % (e.rc, e.err[-400:]))
        return oracle(name, e.out)

    # bounds are iterated: everything with 0 preemptions, then 1, then 2 ...
    frontier_by_cost = collections.defaultdict(list)
    frontier_by_cost[0].append(((), None))
    for b in range(0, bound + 1):
        work = frontier_by_cost.pop(b, [])
        while work:
            if counter[0] >= max_exec or chk.out_of_time(0.92):
                chk.cap("%s/%s: stopped inside preemption bound %d after %d executions" % (variant, name, b, counter[0]))
                return counter[0], outcomes, done_bound
            batch, work = work[:64], work[64:]
            base = counter[0]
            counter[0] += len(batch)
            results = pmap(lambda iw: run_one(exe, path, list(iw[1][0]), tmpdir, base + iw[0]), list(enumerate(batch)))
            for (prefix, parent_trace), e in zip(batch, results):
                chk.add(evaluations=1, transitions=len(e.trace))
                # replaying a prefix must reproduce the parent's enabled sets
                if parent_trace is not None:
                    for i in range(len(prefix) - 1):
                        if i < len(e.trace) and i < len(parent_trace) and e.trace[i][0] != parent_trace[i][0]:
                            raise HarnessError("%s: replay divergence at point %d of prefix %r" % (name, i, prefix))
                prob = judge(e)
                outcomes[(e.out.strip()[:200], e.verdict)] += 1
                if prob:
                    sched = ",".join(map(str, prefix)) or "-"
                    chk.violation("%s:%s" % (prob[0], name.split(":")[0]),
                                  "scenario %s (%s) schedule [%s] (%d preemptions): %s" % (name, variant, sched, b, prob[1]),
                                  "# VERIF_SCHED=%s VERIF_VTIME=1 <vjanet %s> <this file>\n%s" % (sched, variant, src))
                    continue
                # children: deviate once more after the prefix
                choices = [t[1] for t in e.trace]
                pre = 0
                for i, (n, c, ce, k) in enumerate(e.trace):
                    if i >= len(prefix):
                        for alt in range(1, n):
                            cost = pre + (1 if ce else 0)
                            if cost <= bound:
                                child = tuple(choices[:i]) + (alt,)
                                if cost == b:
                                    work.append((child, e.trace))
                                else:
                                    frontier_by_cost[cost].append((child, e.trace))
                    if c != 0 and ce:
                        pre += 1
        done_bound = b
    return counter[0], outcomes, done_bound


def tsan_pass(chk, scen, tmpdir):
    exe = vjanet("tsan")
    def one(ns):
        name, src = ns
        path = os.path.join(tmpdir, "tsan_" + re.sub(r"[^A-Za-z0-9]+", "_", name) + ".janet")
        with open(path, "w") as f:
            f.write(src)
        return run(exe, [path], timeout=300)
    res = pmap(one, scen, jobs=8)
    for (name, src), r in zip(scen, res):
        chk.add(evaluations=1)
        err = r.err.decode(errors="replace")
        # one report = the text between two separator lines; reports whose accesses are all inside the
        # harness's own interposers (engine/harness) are not about janet
        for rep in err.split("==================")[1:]:
            m = re.search(r"WARNING: ThreadSanitizer: ([a-z-]+(?: [a-z-]+)?)", rep)
            if not m:
                continue
            tops = re.findall(r"#0 \S+ (\S+)", rep)
            if tops and all("/engine/harness/" in t for t in tops):
                chk.part("tsan-side-pass", harness_only_reports=1)
                continue
            if "os_exit" in rep and re.search(r"janet_(ev_)?deinit", rep):
                # the scenario's closing (os/exit 0) tears the main VM down while a worker is still on its way out (its
                # completion event races with the close of the self-pipe): a consequence of how the scenario is stopped -
                # os/exit does not wait for threads - and not of message passing. Counted, not claimed.
                chk.part("tsan-side-pass", exit_teardown_reports=1)
                continue
            k = m.group(1).replace(" ", "-")
            chk.violation("tsan:%s:%s" % (k, name.split(":")[0]),
                          "scenario %s free-running under ThreadSanitizer reports %s: %s" % (name, m.group(1), rep[:1500]),
                          "# <vjanet tsan> <this file>\n" + src)
    chk.part("tsan-side-pass", scenarios=len(scen))


def main():
    chk = Check("C08")
    chk.rule("stateless exploration of every closed scenario under the controlled scheduler with iterative preemption "
             "bounding (0, 1, 2 preemptions; switching away from a still-enabled thread costs one): every execution is a "
             "fresh process of the real interpreter replaying a choice prefix. Distinct non-trivial = distinct (output, "
             "scheduler verdict) outcomes per scenario.")
    chk.assume("sequentially consistent scheduler (hardware reorderings of relaxed atomics are not modelled); scheduling "
               "points at pthread_mutex_lock/unlock, janet_atomic_inc/dec, read/write/recv/send, epoll_wait, thread start "
               "and exit; unsynchronised accesses between points are only visible to the ThreadSanitizer side pass")
    tmpdir = mktmp()
    try:
        scen = []
        if chk.quick:
            scen += [s1(2, 0, "num"), s1(2, 1, "tab"), s2(1, 0), s3(1, 0), s4(), s5("reader"), s5("writer"), s6(),
                     s7("returns"), s8(), s9(), s10(), s11("select"), s11("take"), s12(), s13(), s14(40), s15(), s16(0), s16(2), s17()]
            plan = {"bound": 2, "max_exec": 2500}
        else:
            for k in (1, 2, 3):
                for cap in (0, 1, 2):
                    scen.append(s1(k, cap, "num"))
            scen += [s1(2, 1, "str"), s1(2, 0, "tup"), s1(2, 1, "tab"), s2(1, 0), s2(2, 1), s3(2, 0), s3(2, 1), s4(),
                     s5("reader"), s5("writer"), s6(), s7("returns"), s7("errors"), s8(), s9(), s10(),
                     s11("select"), s11("take"), s12(), s13(), s14(40), s14(70), s15(), s16(0), s16(1), s16(2), s17()]
            plan = {"bound": 2, "max_exec": 40000}
        only = chk.args.only
        if only:
            scen = [s for s in scen if s[0].startswith(only)]
        for i, (name, src) in enumerate(scen):
            if chk.out_of_time(0.9):
                chk.cap("scenario %s not run (time budget)" % name)
                continue
            # the burst scenario has more than a thousand scheduling points: it is explored with at most one preemption
            bound = plan["bound"] if not name.startswith("S14") else 1
            n, outcomes, done = explore(chk, "fast", name, src, bound, tmpdir, plan["max_exec"])
            chk.add(states=n)
            for k in outcomes:
                chk.outcome((name, k))
            chk.part(name, executions=n, distinct_outcomes=len(outcomes), preemption_bound_completed=done)
        # memory safety of shared abstracts: bound 0 (and 1 in thorough) again under ASan
        for name, src in scen:
            if chk.out_of_time(0.95):
                chk.cap("asan pass for %s not run (time budget)" % name)
                continue
            n, outcomes, done = explore(chk, "asan", name, src, 0 if chk.quick else 1, tmpdir, 300 if chk.quick else 3000)
            chk.part("asan/" + name, executions=n, preemption_bound_completed=done)
        if not chk.out_of_time(0.97):
            tsan_pass(chk, scen, tmpdir)
        chk.sample({"scenario": scen[0][0], "source": scen[0][1]})
        chk.cov["bound_completed"] = "preemption bound %d (see parts for per-scenario completion)" % plan["bound"]
    finally:
        shutil.rmtree(tmpdir, ignore_errors=True)
    chk.finish()


if __name__ == "__main__":
    harness_guard(main)
