# C19 case library: shapes (inputs of a given nesting depth / ring length) and consumers.
# No dependency on the verification harness: the same text is embedded in replay files.
# (run-case family consumer shape n) builds the input and runs the consumer.

(def RG (or (scan-number (or (os/getenv "C19_RECURSION_GUARD") "")) 1024))

(defn rep [s n] (string/repeat s n))

# ---------------------------------------------------------------------------
# data shapes: (mk n) builds a fresh value of nesting depth / ring length n

(defn mk-arr [n] (var x @[]) (repeat n (set x @[x])) x)
(defn mk-tup [n] (var x []) (repeat n (set x [x])) x)
(defn mk-btup [n] (var x '[]) (repeat n (set x (tuple/brackets x))) x)
(defn mk-tab [n] (var x @{}) (repeat n (set x @{:a x})) x)
(defn mk-tabk [n] (var x @{}) (repeat n (set x @{x 1})) x)
(defn mk-st [n] (var x {}) (repeat n (set x {:a x})) x)
(defn mk-stk [n] (var x {}) (repeat n (set x {x 1})) x)
(defn mk-wide [n] (var x [0]) (repeat n (set x [1 x 2 "s" :k])) x)
(defn mk-mix [n]
  (var x 0)
  (for i 0 n
    (set x (case (% i 5)
             0 @[x]
             1 [x]
             2 @{:a x}
             3 {:a x}
             (tuple/brackets x))))
  x)
(defn mk-tproto [n] (var x @{:z 0}) (repeat n (set x (table/setproto @{:a 1} x))) x)
(defn mk-sproto [n] (var x {:z 0}) (repeat n (set x (struct/with-proto x :a 1))) x)
# closure chain: each closure captures the previous one (detached environments)
(defn mk-clo [n] (var f (fn [] 0)) (repeat n (let [g f] (set f (fn [] g)))) f)
# fiber list: each suspended fiber holds the next one on its stack
(defn mk-fiblist [n]
  (var f nil)
  (repeat n
    (let [g f]
      (def nf (fiber/new (fn [] (yield 1) g)))
      (resume nf)
      (set f nf)))
  f)

# rings (self-referential). n = number of containers on the cycle
(defn mk-cyc-arr [n]
  (def first @[1]) (var x first)
  (repeat (- n 1) (set x @[x]))
  (array/push first x) first)
(defn mk-cyc-tab [n]
  (def first @{:k 1}) (var x first)
  (repeat (- n 1) (set x @{:a x}))
  (put first :a x) first)
(defn mk-cyc-tabk [n]
  (def first @{:k 1}) (var x first)
  (repeat (- n 1) (set x @{x 1}))
  (put first x 1) first)
(defn mk-cyc-mix [n]
  (def first @[1]) (var x first)
  (for i 0 (- n 1)
    (set x (case (% i 4)
             0 [x]
             1 @{:a x}
             2 {:a x}
             @[x])))
  (array/push first x) first)
(defn mk-cyc-tproto [n]
  (def first @{:k 1}) (var x first)
  (repeat (- n 1) (set x (table/setproto @{:a 1} x)))
  (table/setproto first x) first)

(def data-shapes
  @{"arr" mk-arr "tup" mk-tup "btup" mk-btup "tab" mk-tab "tabk" mk-tabk "st" mk-st "stk" mk-stk
    "wide" mk-wide "mix" mk-mix "tproto" mk-tproto "sproto" mk-sproto "clo" mk-clo "fiblist" mk-fiblist
    "cyc-arr" mk-cyc-arr "cyc-tab" mk-cyc-tab "cyc-tabk" mk-cyc-tabk "cyc-mix" mk-cyc-mix
    "cyc-tproto" mk-cyc-tproto})
(def data-acyclic ["arr" "tup" "btup" "tab" "tabk" "st" "stk" "wide" "mix" "tproto" "sproto" "clo" "fiblist"])
(def data-cyclic ["cyc-arr" "cyc-tab" "cyc-tabk" "cyc-mix" "cyc-tproto"])

(defn to-buf [f] (def b @"") (with-dyns [:out b] (f)) (length b))

# consumers implemented in C (explicit stacks, depth counters, cycle detection)
(def data-c
  @{"eq" (fn [mk n] (= (mk n) (mk n)))
    "eq-self" (fn [mk n] (let [x (mk n)] (= x x)))
    "compare" (fn [mk n] (compare (mk n) (mk n)))
    "hash" (fn [mk n] (hash (mk n)))
    "fmt-p" (fn [mk n] (length (string/format "%p" (mk n))))
    "fmt-P" (fn [mk n] (length (string/format "%P" (mk n))))
    "fmt-m" (fn [mk n] (length (string/format "%m" (mk n))))
    "fmt-j" (fn [mk n] (length (string/format "%j" (mk n))))
    "fmt-v" (fn [mk n] (length (string/format "%v" (mk n))))
    "fmt-q" (fn [mk n] (length (string/format "%q" (mk n))))
    "string" (fn [mk n] (length (string (mk n))))
    "describe" (fn [mk n] (length (describe (mk n))))
    "pp" (fn [mk n] (let [x (mk n)] (to-buf |(pp x))))
    "print" (fn [mk n] (let [x (mk n)] (to-buf |(print x))))
    "printf-j" (fn [mk n] (let [x (mk n)] (to-buf |(printf "%j" x))))
    "marshal" (fn [mk n] (length (marshal (mk n))))
    "marshal-rt" (fn [mk n] (type (unmarshal (marshal (mk n)))))
    "gc-live" (fn [mk n] (let [x (mk n)] (gccollect) (type x)))
    "gc-drop" (fn [mk n] (mk n) (gccollect) (mk n) (gccollect))
    "tabkey" (fn [mk n] (let [t @{}] (put t (mk n) 1) (put t (mk n) 2) (get t (mk n))))
    "sort" (fn [mk n] (length (sort @[(mk n) (mk n) (mk n)])))
    "compile-quote" (fn [mk n] (type (compile ['quote (mk n)])))
    "eval-quote" (fn [mk n] (type (eval ['quote (mk n)])))
    "compile-lit" (fn [mk n] (let [r (compile (mk n))] (if (table? r) (error (r :error)) r)))
    "get-missing" (fn [mk n] (get (mk n) :missing))
    # :z lives in the last prototype: lookups give up after JANET_MAX_PROTO_DEPTH links (reported as an error here
    # so that the limit shows up as a boundary of the sweep)
    "get-deepest" (fn [mk n] (let [x (mk n) v (get x :z)]
                               (if (and (nil? v) (or (and (table? x) (table/getproto x)) (and (struct? x) (struct/getproto x))))
                                 (error "key of the deepest prototype not found")
                                 v)))
    "keys" (fn [mk n] (let [x (mk n)] (if (or (function? x) (fiber? x)) 0 (length (keys x)))))
    "call" (fn [mk n] (let [x (mk n)] (if (function? x) (type (x)) 0)))
    "method" (fn [mk n] (let [x (mk n)] (if (table? x) (:missing x) 0)))})

# consumers implemented in Janet (recursion on the fiber stack)
(def data-j
  @{"deep=" (fn [mk n] (deep= (mk n) (mk n)))
    "deep-not=" (fn [mk n] (deep-not= (mk n) (mk n)))
    "freeze" (fn [mk n] (type (freeze (mk n))))
    "thaw" (fn [mk n] (type (thaw (mk n))))
    "flatten" (fn [mk n] (let [x (mk n)] (if (indexed? x) (length (flatten x)) 0)))
    "postwalk" (fn [mk n] (type (postwalk identity (mk n))))
    "prewalk" (fn [mk n] (type (prewalk identity (mk n))))
    "proto-flatten" (fn [mk n] (let [x (mk n)]
                                 (cond (table? x) (length (table/proto-flatten x))
                                   (struct? x) (length (struct/proto-flatten x))
                                   0)))
    "env-lookup" (fn [mk n] (let [x (mk n)] (if (table? x) (length (env-lookup x)) 0)))
    "all-bindings" (fn [mk n] (let [x (mk n)] (if (table? x) (length (all-bindings x)) 0)))
    "table-clone" (fn [mk n] (let [x (mk n)] (if (table? x) (length (table/clone x)) 0)))})

# ---------------------------------------------------------------------------
# parser inputs

(def parse-shapes
  @{"paren" (fn [n] (string (rep "(" n) (rep ")" n)))
    "brack" (fn [n] (string (rep "[" n) (rep "]" n)))
    "brace" (fn [n] (string (rep "{:a " n) "1" (rep "}" n)))
    "aparen" (fn [n] (string (rep "@(" n) (rep ")" n)))
    "abrack" (fn [n] (string (rep "@[" n) (rep "]" n)))
    "abrace" (fn [n] (string (rep "@{:a " n) "1" (rep "}" n)))
    "quote" (fn [n] (string (rep "'" n) "a"))
    "quasi" (fn [n] (string (rep "~" n) "a"))
    "unquote" (fn [n] (string (rep "," n) "a"))
    "splice" (fn [n] (string (rep ";" n) "a"))
    "shortfn" (fn [n] (string (rep "|" n) "a"))
    "mixed" (fn [n] (def opens ["(" "[" "{:a " "@(" "@[" "@{:a " "'(" "~[" "|("])
              (def closes [")" "]" "}" ")" "]" "}" ")" "]" ")"])
              (def b @"")
              (for i 0 n (buffer/push b (opens (% i 9))))
              (buffer/push b "1")
              (for i 0 n (buffer/push b (closes (% (- n 1 i) 9))))
              (string b))
    "unclosed" (fn [n] (rep "(" n))
    "unclosed-mixed" (fn [n] (def opens ["(" "[" "{" "@(" "'" "~"]) (def b @"") (for i 0 n (buffer/push b (opens (% i 6)))) (string b))
    "mismatch" (fn [n] (string (rep "(" n) (rep "]" n)))
    "longstr" (fn [n] (string (rep "`" n) "a" (rep "`" n)))
    "longbuf" (fn [n] (string "@" (rep "`" n) "a" (rep "`" n)))})
(def parse-shape-names ["paren" "brack" "brace" "aparen" "abrack" "abrace" "quote" "quasi" "unquote" "splice" "shortfn"
                        "mixed" "unclosed" "unclosed-mixed" "mismatch" "longstr" "longbuf"])

(def parse-consumers
  @{"parse" (fn [src] (type (parse src)))
    "parse-all" (fn [src] (length (parse-all src)))
    "bytewise" (fn [src] (def p (parser/new)) (each b src (parser/byte p b)) (parser/eof p)
                 (def st (parser/status p))
                 (when (= st :error) (error (parser/error p)))
                 (if (parser/has-more p) (type (parser/produce p)) st))
    "state" (fn [src] (def p (parser/new)) (parser/consume p src)
              (+ (length (parser/state p :frames)) (length (parser/state p :delimiters))))
    "clone" (fn [src] (def p (parser/new)) (def half (div (length src) 2))
              (parser/consume p (string/slice src 0 half))
              (def q (parser/clone p)) (parser/consume q (string/slice src half)) (gccollect)
              (parser/status q))
    "gc" (fn [src] (def p (parser/new)) (def half (div (length src) 2))
           (parser/consume p (string/slice src 0 half)) (gccollect) (gccollect)
           (parser/consume p (string/slice src half)) (parser/status p))
    "eval-string" (fn [src] (type (eval-string src)))})
(def parse-consumer-names ["parse" "parse-all" "bytewise" "state" "clone" "gc" "eval-string"])

# ---------------------------------------------------------------------------
# compiler inputs (forms built as data)

(defn nestf [n leaf f] (var x leaf) (repeat n (set x (f x))) x)
(defn wide [head n] (def a @[head]) (for i 0 n (array/push a i)) (tuple/slice a))

(def form-shapes
  @{"call" (fn [n] (nestf n 1 |(tuple '+ 1 $)))
    "callhead" (fn [n] (nestf n 'identity |(tuple $ 'identity)))
    "do" (fn [n] (nestf n 1 |(tuple 'do $)))
    "if-cond" (fn [n] (nestf n 1 |(tuple 'if $ 1 2)))
    "if-then" (fn [n] (nestf n 1 |(tuple 'if 1 $ 2)))
    "if-else" (fn [n] (nestf n 1 |(tuple 'if nil 2 $)))
    "fn" (fn [n] (nestf n 1 |(tuple 'fn [] $)))
    "fn-closure" (fn [n] (tuple 'fn '[x] (nestf n 'x |(tuple 'fn [] $))))
    "while-body" (fn [n] (nestf n 1 |(tuple 'while nil $)))
    "while-cond" (fn [n] (nestf n nil |(tuple 'while $ 1)))
    "def-value" (fn [n] (nestf n 1 |(tuple 'do (tuple 'def 'a $) 'a)))
    "var-set" (fn [n] (tuple 'do '(var v 0) (nestf n 1 |(tuple 'set 'v $))))
    "upscope" (fn [n] (nestf n 1 |(tuple 'upscope $)))
    "break" (fn [n] (nestf n 1 |(tuple 'while true (tuple 'break $))))
    "splice" (fn [n] (nestf n (tuple/brackets 1) |(tuple 'tuple (tuple 'splice $))))
    "quote" (fn [n] (tuple 'quote (mk-tup n)))
    "quasi" (fn [n] (tuple 'quasiquote (mk-tup n)))
    "quasi-unquote" (fn [n] (nestf n 1 |(tuple 'quasiquote (tuple 'a (tuple 'unquote $)))))
    "quasi-arr" (fn [n] (tuple 'quasiquote (mk-arr n)))
    "quasi-tab" (fn [n] (tuple 'quasiquote (mk-tab n)))
    "quasi-st" (fn [n] (tuple 'quasiquote (mk-st n)))
    "btuple-lit" (fn [n] (nestf n 1 |(tuple/brackets $)))
    "array-lit" (fn [n] (nestf n 1 |(array $)))
    "table-lit" (fn [n] (nestf n 1 |(table :a $)))
    "table-lit-key" (fn [n] (nestf n 1 |(table $ 1)))
    "struct-lit" (fn [n] (nestf n 1 |(struct :a $)))
    "def-destructure" (fn [n] (tuple 'def (nestf n 'a |(tuple/brackets $)) nil))
    "def-destructure-st" (fn [n] (tuple 'def (nestf n 'a |(struct :k $)) nil))
    "var-destructure" (fn [n] (tuple 'var (nestf n 'a |(tuple/brackets $)) nil))
    "def-destructure-both" (fn [n] (tuple 'def (nestf n 'a |(tuple/brackets $)) (nestf n 1 |(tuple/brackets $))))
    "fn-param-destructure" (fn [n] (tuple 'fn (tuple/brackets (nestf n 'a |(tuple/brackets $))) 'a))
    "let" (fn [n] (nestf n 1 |(tuple 'let (tuple/brackets 'a $) 'a)))
    "when" (fn [n] (nestf n 1 |(tuple 'when true $)))
    "if-let" (fn [n] (nestf n 1 |(tuple 'if-let (tuple/brackets 'a $) 'a)))
    "try" (fn [n] (nestf n 1 |(tuple 'try $ (tuple (tuple/brackets 'e) 0))))
    "short-fn" (fn [n] (nestf n 1 |(tuple 'short-fn $)))
    "match" (fn [n] (tuple 'match 1 (nestf n 'a |(tuple/brackets $)) 'a))
    "each-destructure" (fn [n] (tuple 'each (nestf n 'a |(tuple/brackets $)) [] 'a))
    "and-wide" (fn [n] (wide 'and n))
    "or-wide" (fn [n] (wide 'or n))
    "cond-wide" (fn [n] (wide 'cond (* 2 n)))
    "case-wide" (fn [n] (wide 'case (+ 1 (* 2 n))))
    "thread-wide" (fn [n] (def a @['-> 1]) (for i 0 n (array/push a '(+ 1))) (tuple/slice a))
    "do-wide" (fn [n] (wide 'do n))})
(def form-shape-names
  ["call" "callhead" "do" "if-cond" "if-then" "if-else" "fn" "fn-closure" "while-body" "while-cond" "def-value" "var-set"
   "upscope" "break" "splice" "quote" "quasi" "quasi-unquote" "quasi-arr" "quasi-tab" "quasi-st" "btuple-lit" "array-lit"
   "table-lit" "table-lit-key" "struct-lit" "def-destructure" "def-destructure-st" "var-destructure"
   "def-destructure-both" "fn-param-destructure" "let" "when" "if-let" "try" "short-fn" "match" "each-destructure"
   "and-wide" "or-wide" "cond-wide" "case-wide" "thread-wide" "do-wide"])

(defn compile-or-cerr [form env]
  (def r (compile form env))
  (if (table? r) (error [:cerr (r :error)]) r))

(def form-consumers
  @{"compile" (fn [form] (type (compile-or-cerr form (make-env))))
    "eval" (fn [form] (type ((compile-or-cerr form (make-env)))))
    "macex" (fn [form] (type (macex form)))
    "compile-gc-disasm" (fn [form] (def f (compile-or-cerr form (make-env))) (gccollect) (length (disasm f)))
    "compile-marshal" (fn [form] (def f (compile-or-cerr form (make-env))) (length (marshal f make-image-dict)))})
(def form-consumer-names ["compile" "eval" "macex" "compile-gc-disasm" "compile-marshal"])

# macro expansion depth: environment with recursive macros
(def macro-env (make-env))
(eval '(defmacro selfm [x] ['selfm x]) macro-env)
(eval '(defmacro pingm [x] ['pongm x]) macro-env)
(eval '(defmacro pongm [x] ['pingm x]) macro-env)
(eval '(defmacro countm [k n] (if (< k n) ['countm (+ k 1) n] k)) macro-env)
(eval '(defmacro nestm [n] (if (> n 0) ['do ['nestm (- n 1)]] 0)) macro-env)
(eval '(defmacro growm [n] (if (> n 0) ['+ 1 ['growm (- n 1)]] 0)) macro-env)
(def macro-shapes
  @{"self" (fn [n] '(selfm 1))
    "pingpong" (fn [n] '(pingm 1))
    "count" (fn [n] ['countm 0 n])
    "nest" (fn [n] ['nestm n])
    "grow" (fn [n] ['growm n])})
(def macro-shape-names ["self" "pingpong" "count" "nest" "grow"])
(def macro-consumers
  @{"compile" (fn [form] (type (compile-or-cerr form macro-env)))
    "eval" (fn [form] (type ((compile-or-cerr form macro-env))))
    "macex" (fn [form] (with-dyns [] (type (macex form (fn [x] (if-let [e (in macro-env x)] (if (e :macro) (e :value))))))))
    "macex1" (fn [form] (type (macex1 form (fn [x] (if-let [e (in macro-env x)] (if (e :macro) (e :value)))))))})
(def macro-consumer-names ["compile" "eval" "macex" "macex1"])

# ---------------------------------------------------------------------------
# PEG

(def peg-nest-heads
  ['* '+ 'any 'some 'opt 'not 'look 'if-not-x 'capture 'group 'drop 'accumulate 'replace-x 'cmt-x 'between-x
   'at-least-x 'to 'thru 'sub-x 'split-x 'unref 'only-tags 'nth-x 'number-x 'quote-x 'lenprefix-x 'error 'backmatch-tag])
(defn peg-nest [head n]
  (def leaf "a")
  (case head
    'if-not-x (nestf n leaf |(tuple 'if-not "b" $))
    'replace-x (nestf n leaf |(tuple 'replace $ "r"))
    'cmt-x (nestf n leaf |(tuple 'cmt $ (fn [& xs] 1)))
    'between-x (nestf n leaf |(tuple 'between 0 2 $))
    'at-least-x (nestf n leaf |(tuple 'at-least 0 $))
    'sub-x (nestf n leaf |(tuple 'sub $ "a"))
    'split-x (nestf n leaf |(tuple 'split "," $))
    'nth-x (nestf n '(capture "a") |(tuple 'nth 0 $))
    'number-x (nestf n leaf |(tuple 'capture $ :t))
    'quote-x (nestf n leaf |(tuple 'quote $))
    'lenprefix-x (nestf n leaf |(tuple 'lenprefix '(number :d) $))
    'backmatch-tag (nestf n leaf |(tuple '* $ '(backmatch :t)))
    (nestf n leaf |(tuple head $))))

(def peg-compile-shapes @{})
(def peg-compile-shape-names @[])
(each h peg-nest-heads
  (def nm (string "nest-" (string/replace "-x" "" (string h))))
  (array/push peg-compile-shape-names nm)
  (put peg-compile-shapes nm (fn [n] (peg-nest h n))))
(put peg-compile-shapes "seq-wide" (fn [n] (def a @['*]) (for i 0 n (array/push a "a")) (tuple/slice a)))
(put peg-compile-shapes "choice-wide" (fn [n] (def a @['+]) (for i 0 n (array/push a "a")) (tuple/slice a)))
(put peg-compile-shapes "grammar-nest" (fn [n] (nestf n "a" |(struct :main $))))
(put peg-compile-shapes "grammar-nest-tab" (fn [n] (nestf n "a" |(table :main $))))
(put peg-compile-shapes "ref-chain"
     (fn [n] (def g @{:main :r0 (keyword "r" n) "a"})
       (for i 0 n (put g (keyword "r" i) (keyword "r" (+ i 1)))) (table/to-struct g)))
(put peg-compile-shapes "ref-cycle"
     (fn [n] (def g @{:main :r0 (keyword "r" n) :r0})
       (for i 0 n (put g (keyword "r" i) (keyword "r" (+ i 1)))) (table/to-struct g)))
(put peg-compile-shapes "grammar-wide"
     (fn [n] (def g @{:main '(any :r0)})
       (for i 0 n (put g (keyword "r" i) ['+ ['* "b" (keyword "r" (% (+ i 1) n))] "a"])) (table/to-struct g)))
(array/concat peg-compile-shape-names ["seq-wide" "choice-wide" "grammar-nest" "grammar-nest-tab" "ref-chain" "ref-cycle" "grammar-wide"])

# matching a nested repetition / search backtracks exponentially in the nesting depth: those are only matched when shallow
(def peg-exponential
  {"nest-any" true "nest-some" true "nest-between" true "nest-at-least" true "nest-to" true "nest-thru" true
   "nest-split" true "nest-sub" true "nest-not" true "nest-look" true "nest-if-not" true})
(def peg-compile-consumers
  @{"peg-compile" (fn [pat ok] (type (peg/compile pat)))
    "peg-compile-match" (fn [pat ok] (def p (peg/compile pat)) (gccollect) (if ok (type (peg/match p "aaaa,a")) :compiled))
    "peg-compile-marshal" (fn [pat ok] (def p (peg/compile pat)) (type (unmarshal (marshal p))))})
(def peg-compile-consumer-names ["peg-compile" "peg-compile-match" "peg-compile-marshal"])

# recursive grammars on texts of length ~n
(def peg-match-shapes
  @{"paren-rec" (fn [n] [~{:main (+ (* "(" :main ")") "")} (string (rep "(" n) (rep ")" n))])
    "right-rec" (fn [n] [~{:main (+ (* "a" :main) "")} (rep "a" n)])
    "right-rec-capture" (fn [n] [~{:main (+ (* (capture "a") :main) "")} (rep "a" n)])
    "left-rec" (fn [n] [~{:main (+ (* :main "a") "a")} (rep "a" n)])
    "self-loop" (fn [n] [~{:main (* :main "")} (rep "a" n)])
    # recursion in tail position without consuming input (the matcher jumps instead of recursing)
    "left-rec-tail" (fn [n] [~{:main (+ "a" :main)} (rep "b" n)])
    "self-loop-tail" (fn [n] [~{:main (* "" :main)} (rep "a" n)])
    "mutual-rec" (fn [n] [~{:a (+ (* "a" :b) "") :b (+ (* "b" :a) "") :main :a} (rep "ab" (div (+ n 1) 2))])
    "any-loop" (fn [n] [~(any "a") (rep "a" n)])
    "any-capture" (fn [n] [~(any (capture "a")) (rep "a" n)])
    "not-rec" (fn [n] [~{:main (+ (* "a" (not (not :main))) "a")} (rep "a" n)])
    "look-rec" (fn [n] [~{:main (* "a" (+ (look 0 :main) ""))} (rep "a" n)])
    "group-rec" (fn [n] [~{:main (+ (group (* (capture "a") :main)) "")} (rep "a" n)])
    "sub-rec" (fn [n] [~{:main (+ (sub (* "a" (any 1)) (* "a" :main)) "")} (rep "a" n)])
    "to-rec" (fn [n] [~{:main (+ (* (to "b") "b" :main) "")} (rep "ab" (div (+ n 1) 2))])
    "cmt-rec" (fn [n] [~{:main (+ (cmt (* (capture "a") :main) ,(fn [& xs] (length xs))) (constant 0))} (rep "a" n)])
    "replace-rec" (fn [n] [~{:main (+ (replace (* "a" :main) "z") "")} (rep "a" n)])
    "accumulate-rec" (fn [n] [~{:main (+ (accumulate (* (capture "a") :main)) "")} (rep "a" n)])
    # repetition rules in front of a recursion: whatever they match, the recursion behind them must still be bounded
    "lenprefix-then-paren" (fn [n] [~{:nest (+ (* "(" :nest ")") "") :main (* (lenprefix (* (number :d+) ":") 1) :nest)}
                                    (string n ":" (rep "x" n) (rep "(" n) (rep ")" n))])
    "repeat-then-paren" (fn [n] [~{:nest (+ (* "(" :nest ")") "") :main (* (any "x") (between 0 ,(max 1 n) "y") :nest)}
                                 (string (rep "x" n) (rep "y" n) (rep "(" n) (rep ")" n))])
    "split-many" (fn [n] [~(split "," (capture "a")) (string/join (seq [i :range [0 (max 1 n)]] "a") ",")])})
(def peg-match-shape-names
  ["paren-rec" "right-rec" "right-rec-capture" "left-rec" "self-loop" "left-rec-tail" "self-loop-tail" "mutual-rec" "any-loop" "any-capture" "not-rec"
   "look-rec" "group-rec" "sub-rec" "to-rec" "cmt-rec" "replace-rec" "accumulate-rec" "split-many" "lenprefix-then-paren"
   "repeat-then-paren"])
(def peg-match-consumers
  @{"peg-match" (fn [[pat text]] (type (peg/match pat text)))
    "peg-find" (fn [[pat text]] (type (peg/find pat text)))
    "peg-replace" (fn [[pat text]] (length (peg/replace pat "z" text)))})
(def peg-match-consumer-names ["peg-match" "peg-find" "peg-replace"])

# ---------------------------------------------------------------------------
# VM recursion and re-entry of the interpreter from C

(defn rec [k] (if (= k 0) 0 (+ 1 (rec (- k 1)))))
(varfn odd2 [k] nil)
(defn even2 [k] (if (= k 0) 0 (+ 1 (odd2 (- k 1)))))
(varfn odd2 [k] (if (= k 0) 0 (+ 1 (even2 (- k 1)))))
(defn apply-rec [k] (if (= k 0) 0 (+ 1 (apply apply-rec [(- k 1)]))))
(defn map-rec [k] (if (= k 0) 0 (+ 1 (first (map map-rec [(- k 1)])))))
(defn sortby-rec [k] (if (= k 0) 0 (+ 1 (first (sort-by sortby-rec @[(- k 1)])))))
(defn sorted-rec [k]
  (if (= k 0) 0
    (do (var r 0) (sort @[1 2 3] (fn [a b] (when (= r 0) (set r (+ 1 (sorted-rec (- k 1))))) (< a b))) r)))
(defn reduce-rec [k] (if (= k 0) 0 (+ 1 (reduce (fn [acc x] (reduce-rec x)) 0 [(- k 1)]))))
(defn resume-rec [k] (if (= k 0) 0 (+ 1 (resume (fiber/new (fn [] (resume-rec (- k 1))))))))
(defn try-rec [k] (if (= k 0) 0 (+ 1 (try (try-rec (- k 1)) ([e] (error e))))))
(defn gen-rec [k] (if (= k 0) 0 (+ 1 (first (seq [x :in (coro (yield (gen-rec (- k 1))))] x)))))
(defn next-rec [k]
  # (next fiber) resumes the fiber from C (janet_next -> janet_continue)
  (if (= k 0) 0
    (do (def f (fiber/new (fn [] (yield (next-rec (- k 1)))) :yi))
      (next f)
      (+ 1 (in f 0)))))
(defn cmt-rec [k]
  (if (= k 0) 0
    (+ 1 (first (peg/match ~(cmt (capture "a") ,(fn [x] (cmt-rec (- k 1)))) "a")))))
(defn pegreplace-rec [k]
  (if (= k 0) 0
    (do (var r 0) (peg/replace "a" (fn [x] (set r (+ 1 (pegreplace-rec (- k 1)))) "b") "a") r)))
(defn strreplace-rec [k]
  (if (= k 0) 0
    (do (var r 0) (string/replace "a" (fn [x] (set r (+ 1 (strreplace-rec (- k 1)))) "b") "a") r)))
(defn printfn-rec [k]
  (if (= k 0) 0
    (do (var r 0) (with-dyns [:out (fn [x] (when (= r 0) (set r (+ 1 (printfn-rec (- k 1))))))] (prin "x")) r)))
(def reenter-env (make-env))
(put reenter-env 'evalm-depth @{:value @[0 0]})
(eval '(defmacro evalm []
         (def d evalm-depth)
         (if (< (d 0) (d 1))
           (do (++ (d 0)) (def r (eval '(+ 1 (evalm)))) (-- (d 0)) r)
           0)) reenter-env)
(defn macro-eval-rec [k]
  (def d (get-in reenter-env ['evalm-depth :value]))
  (put d 0 0) (put d 1 k)
  (eval '(evalm) reenter-env))
(defn error-unwind [k] (if (= k 0) (error "bottom") (+ 1 (error-unwind (- k 1)))))
(defn yield-chain [k]
  # k nested fibers; the innermost raises a user signal that no fiber but the outermost catches
  (defn lvl [j]
    (if (= j 0) (signal 3 :deep)
      (do (def f (fiber/new (fn [] (lvl (- j 1))) :e))
        (def r (resume f))
        # re-raise a constant: quoting the inner message at every level would double its size each time
        (if (= (fiber/status f) :error) (error "inner level failed") (+ 1 r)))))
  (def top (fiber/new (fn [] (lvl k)) :e3))
  (def v (resume top))
  (gccollect)
  [(fiber/status top) v])
(defn child-chain-marshal [k]
  (defn lvl [j]
    (if (= j 0) (signal 3 :deep)
      (do (def f (fiber/new (fn [] (lvl (- j 1))) :e))
        (def r (resume f))
        # re-raise a constant: quoting the inner message at every level would double its size each time
        (if (= (fiber/status f) :error) (error "inner level failed") (+ 1 r)))))
  (def top (fiber/new (fn [] (lvl k)) :e3))
  (resume top)
  (length (marshal top make-image-dict)))
(defn small-maxstack [k]
  (def f (fiber/new (fn [] (rec k)) :e))
  (fiber/setmaxstack f 4096)
  (def v (resume f))
  (if (= (fiber/status f) :error) (error v) v))

(def vm-consumers
  @{"rec" rec "mutual" even2 "apply-rec" apply-rec "map-rec" map-rec "sortby-rec" sortby-rec "sorted-rec" sorted-rec
    "reduce-rec" reduce-rec "resume-rec" resume-rec "try-rec" try-rec "gen-rec" gen-rec "next-rec" next-rec
    "cmt-rec" cmt-rec "pegreplace-rec" pegreplace-rec "strreplace-rec" strreplace-rec "printfn-rec" printfn-rec
    "macro-eval-rec" macro-eval-rec "error-unwind" error-unwind "yield-chain" yield-chain
    "child-chain-marshal" child-chain-marshal "small-maxstack" small-maxstack})
(def vm-consumer-names
  ["rec" "mutual" "apply-rec" "map-rec" "sortby-rec" "sorted-rec" "reduce-rec" "resume-rec" "try-rec" "gen-rec" "next-rec"
   "cmt-rec" "pegreplace-rec" "strreplace-rec" "printfn-rec" "macro-eval-rec" "error-unwind" "yield-chain"
   "child-chain-marshal" "small-maxstack"])
# consumers whose depth is bounded by the nested-interpreter guard
(def vm-guarded
  {"resume-rec" true "try-rec" true "gen-rec" true "next-rec" true "cmt-rec" true "pegreplace-rec" true
   "strreplace-rec" true "printfn-rec" true "macro-eval-rec" true "yield-chain" true "child-chain-marshal" true})

# ---------------------------------------------------------------------------
# native recursion that accumulates over several resumptions: a chain of fibers nested by `resume`
# whose intermediate fibers do not catch :yield, so a yield of the innermost fiber leaves the whole
# chain suspended and linked through fiber->child. Resuming the top re-enters the chain natively
# (janet_continue through every child); the innermost fiber then nests `step` fibers further and
# yields again. Every round stays far below the guard, the chain as a whole does not.
# n = total length of the chain (top included), step = fibers added per round.

(defn accum-chain [step n mode]
  (var len 1)        # fibers in the chain, the top included
  (var target 1)
  (var finish false)
  (defn level []
    (var ret nil)
    (while true
      (cond
        finish (do (set ret len) (break))
        (< len target) (do (++ len)
                         # :d = the new fiber catches neither yields nor errors of the fibers below it
                         (set ret (resume (fiber/new level :d)))
                         (break))
        (yield len)))
    ret)
  (def top (fiber/new level :y))
  (var rounds 0)
  (while (< target n)
    (set target (min n (+ target step)))
    (++ rounds)
    (def got (resume top))
    (unless (= got target) (errorf "chain length %v after round %d, expected %d" got rounds target)))
  (gccollect)
  (case mode
    :finish (do (set finish true)
              (def r (resume top))
              (unless (and (= r n) (= :dead (fiber/status top))) (errorf "chain unwound to %v (%v)" r (fiber/status top)))
              r)
    :cancel (let [r (protect (cancel top :stop))]
              # the error travels down the chain natively and kills every fiber on its way back up
              (if (and (not (r 0)) (= (r 1) :stop)) (fiber/status top) (error (r 1))))
    :abandon (do (gccollect) (fiber/status top))))

(def accum-steps {"step-1" 1 "step-7" 7 "step-100" 100 "step-300" 300 "step-700" 700})
(def accum-shape-names ["step-1" "step-7" "step-100" "step-300" "step-700"])
(def accum-consumers
  @{"resume-chain" (fn [step n] (accum-chain step n :finish))
    "cancel-chain" (fn [step n] (accum-chain step n :cancel))
    "abandon-chain" (fn [step n] (accum-chain step n :abandon))})
(def accum-consumer-names ["resume-chain" "cancel-chain" "abandon-chain"])

# ---------------------------------------------------------------------------
# chains through the collector, assembler, unmarshaller

(defn fiber-env-chain [n]
  # n suspended fibers; fiber i runs a closure whose environment lives on the stack of fiber i+1
  (defn step [] (var x 0) (def nxt (fn [] (++ x) (+ 0 (step)))) (yield nxt) x)
  (var fib (fiber/new step))
  (repeat n (set fib (fiber/new (resume fib))))
  (resume fib)
  fib)

(defn asm-nest [n]
  (var d {:bytecode '[(ldn 0) (ret 0)] :slotcount 1 :arity 0})
  (repeat n (set d {:bytecode '[(clo 0 0) (ret 0)] :slotcount 1 :arity 0 :defs [d]}))
  d)

(def img-def-open "\xCD\x00\x20\x00\x00\x01\x00\x00\x00\x00\x02\x01\x04\x00\x00\x00\x04\x00\x00\x00")
(def img-def-leaf "\x00\x01\x00\x00\x00\x00\x02\x04\x00\x00\x00\x04\x00\x00\x00")
(def image-shapes
  @{"arr" (fn [n] (string (rep "\xD1\x01" n) "\xC9"))
    "tup" (fn [n] (string (rep "\xD2\x01\x00" n) "\xC9"))
    "tab-val" (fn [n] (string (rep "\xD3\x01\x01" n) "\xC9"))
    "tab-key" (fn [n] (string (rep "\xD3\x01" n) "\xC9" (rep "\x01" n)))
    "st-val" (fn [n] (string (rep "\xD5\x01\x01" n) "\xC9"))
    "tab-proto" (fn [n] (string (rep "\xD4\x00" n) "\xD3\x00"))
    "st-proto" (fn [n] (string (rep "\xDF\x00" n) "\xD5\x00"))
    "mixed" (fn [n] (def parts ["\xD1\x01" "\xD2\x01\x00" "\xD3\x01\x01" "\xD5\x01\x01"]) (def b @"")
              (for i 0 n (buffer/push b (parts (% i 4)))) (buffer/push b "\xC9")
              (string b))
    "funcdef-nest" (fn [n] (string "\xD7\x00" (rep "\xCD\x00\x20\x00\x00\x00\x00\x00\x00\x00\x00\x01" n)))
    "funcdef-valid" (fn [n] (string "\xD7\x00" (rep img-def-open n) img-def-leaf))
    "trunc-arr" (fn [n] (rep "\xD1\x01" n))
    # abstract values that hold Janet values: a channel whose only item is a channel ... (n levels), a leaf item 1
    "chan-nest" (fn [n] (string "\xD9\xCF\x0Ccore/channel\0\0\x01\x01" (rep "\xD9\xDA\0\0\0\x01\x01" n) "\x01"))})
(def image-shape-names ["arr" "tup" "tab-val" "tab-key" "st-val" "tab-proto" "st-proto" "mixed" "funcdef-nest"
                        "funcdef-valid" "trunc-arr" "chan-nest"])
(def image-consumers
  @{"unmarshal" (fn [img] (type (unmarshal img)))
    "unmarshal-gc" (fn [img] (def x (unmarshal img)) (gccollect) (type x))
    "unmarshal-use" (fn [img] (def x (unmarshal img))
                      (if (function? x)
                        (do (x) (length (disasm x)) (length (string/format "%p" x)))
                        (length (string/format "%p" x))))
    "unmarshal-marshal" (fn [img] (length (marshal (unmarshal img))))})
(def image-consumer-names ["unmarshal" "unmarshal-gc" "unmarshal-use" "unmarshal-marshal"])

(def chain-consumers
  @{"gc/fiber-env-chain" (fn [n] (def f (fiber-env-chain n)) (gccollect) (fiber/status f))
    "asm/defs-nest" (fn [n] (type (asm (asm-nest n))))
    "asm/defs-nest-gc-disasm" (fn [n] (def f (asm (asm-nest n))) (gccollect) (length (disasm f)))
    "asm/defs-nest-call" (fn [n] (def f (asm (asm-nest n))) (type (f)))})
(def chain-consumer-names ["gc/fiber-env-chain" "asm/defs-nest" "asm/defs-nest-gc-disasm" "asm/defs-nest-call"])

# ---------------------------------------------------------------------------
# compositions: a deep C recursion that calls back into the interpreter

(defn compose-compile-in-macro [n]
  # macro whose expansion compiles a 500-deep form that contains the macro again, n levels
  (def env (make-env))
  (def st @[0])
  (def k (min 500 (- RG 100)))
  (defn form [] (nestf k '(deepm) |(tuple '+ 1 $)))
  (put env 'deepm @{:macro true
                    :value (fn []
                             (when (< (st 0) n)
                               (++ (st 0))
                               (def r (compile (form) env))
                               (-- (st 0))
                               (when (table? r) (error (r :error))))
                             1)})
  (type (compile-or-cerr (form) env)))
(defn compose-comptime [n]
  (var x 1)
  (def k (min 500 (- RG 100)))
  (repeat n (repeat k (set x ['+ 1 x])) (set x ['comptime x]))
  (type ((compile-or-cerr x (make-env)))))
(defn compose-qq-unquote [n]
  # a quasiquote template nested almost to its own limit, then an unquote holding a new quasiquote, n levels:
  # the nesting of a template and the nesting of forms must count against one bound
  (var x 1)
  (def k (- RG 124))
  (repeat n (repeat k (set x [x])) (set x ['unquote ['quasiquote x]]))
  (type (compile-or-cerr ['quasiquote x] (make-env))))
(defn compose-peg-in-peg [n]
  (def k (div (- RG 100) 3))
  (def text (string (rep "(" k) "x" (rep ")" k)))
  (var level 0) (var g nil)
  (defn cb [x] (when (< level n) (++ level) (peg/match g text) (-- level)) x)
  (set g (peg/compile ~{:main (+ (* "(" :main ")") (cmt (capture "x") ,cb))}))
  (type (peg/match g text)))
(defn at-reentry-depth [thunk]
  # run thunk below RG-24 nested interpreter entries (resume from a cmt callback: C -> VM -> C ...)
  (defn lvl [j] (if (= j 0) (thunk) (first (peg/match ~(cmt (capture "a") ,(fn [x] (lvl (- j 1)))) "a"))))
  (lvl (max 0 (- RG 24))))
(def compose-consumers
  @{"compose/compile-in-macro" compose-compile-in-macro
    "compose/comptime" compose-comptime
    "compose/peg-in-peg" compose-peg-in-peg
    "compose/quasiquote-unquote" compose-qq-unquote
    "compose/reentry-marshal" (fn [n] (at-reentry-depth |(length (marshal (mk-arr n)))))
    "compose/reentry-compile" (fn [n] (at-reentry-depth |(type (compile-or-cerr ((form-shapes "fn") n) (make-env)))))
    "compose/reentry-fmt-j" (fn [n] (at-reentry-depth |(length (string/format "%j" (mk-tab n)))))
    "compose/reentry-fmt-p" (fn [n] (at-reentry-depth |(length (string/format "%p" (mk-mix n)))))
    "compose/reentry-gc" (fn [n] (at-reentry-depth |(let [x (mk-mix n)] (gccollect) (type x))))
    "compose/reentry-peg" (fn [n] (at-reentry-depth |(type (peg/match ~{:main (+ (* "(" :main ")") "")} (string (rep "(" n) (rep ")" n))))))
    "compose/reentry-pegc" (fn [n] (at-reentry-depth |(type (peg/compile (peg-nest 'capture n)))))
    "compose/reentry-unmarshal" (fn [n] (at-reentry-depth |(type (unmarshal ((image-shapes "mixed") n)))))
    "compose/reentry-parse" (fn [n] (at-reentry-depth |(type (parse ((parse-shapes "mixed") n)))))})
(def compose-consumer-names
  ["compose/compile-in-macro" "compose/comptime" "compose/peg-in-peg" "compose/quasiquote-unquote" "compose/reentry-marshal" "compose/reentry-compile"
   "compose/reentry-fmt-j" "compose/reentry-fmt-p" "compose/reentry-gc" "compose/reentry-peg" "compose/reentry-pegc"
   "compose/reentry-unmarshal" "compose/reentry-parse"])

# ---------------------------------------------------------------------------
# tail calls: constant space

(defn statm []
  (def f (file/open "/proc/self/statm"))
  (def s (file/read f :all))
  (file/close f)
  (map scan-number (string/split " " (string/trim s))))
(defn frames [] (length (debug/stack (fiber/current))))
(var leaf-frames 0)
(defn selftail [k acc] (if (= k 0) (do (set leaf-frames (frames)) acc) (selftail (- k 1) (+ acc 1))))
(varfn tb [k acc] nil)
(defn ta [k acc] (if (= k 0) (do (set leaf-frames (frames)) acc) (tb (- k 1) (+ acc 1))))
(varfn tb [k acc] (if (= k 0) (do (set leaf-frames (frames)) acc) (ta (- k 1) (+ acc 1))))
(varfn t3c [k acc] nil)
(defn t3a [k acc] (if (= k 0) (do (set leaf-frames (frames)) acc) (t3c (- k 1) (+ acc 1))))
(defn t3b [k acc] (if (= k 0) (do (set leaf-frames (frames)) acc) (t3a (- k 1) (+ acc 1))))
(varfn t3c [k acc] (if (= k 0) (do (set leaf-frames (frames)) acc) (t3b (- k 1) (+ acc 1))))
(defn applytail [k acc] (if (= k 0) (do (set leaf-frames (frames)) acc) (apply applytail [(- k 1) (+ acc 1)])))
(defn condtail [k acc]
  (cond (= k 0) (do (set leaf-frames (frames)) acc)
    (even? k) (do (condtail (- k 1) (+ acc 1)))
    (let [j (- k 1)] (when true (condtail j (+ acc 1))))))
(defn closuretail [k acc]
  # a fresh closure is created and tail-called at every step
  (if (= k 0) (do (set leaf-frames (frames)) acc)
    ((fn [] (closuretail (- k 1) (+ acc 1))))))
(def tail-fns @{"self" selftail "mutual2" ta "mutual3" t3a "apply" applytail "cond-do-let" condtail "closure" closuretail})
(def tail-names ["self" "mutual2" "mutual3" "apply" "cond-do-let" "closure"])
(defn run-tail [f n]
  # report: result, frames at the leaf for n and for a 1000-step run, RSS/VSZ growth in pages
  (f 1000 0)
  (def small-frames leaf-frames)
  (gccollect)
  (def before (statm))
  (def r (f n 0))
  (def big-frames leaf-frames)
  (def after (statm))
  (string/format "result=%d frames=%d/%d rss=%d vsz=%d" r small-frames big-frames
                 (- (after 1) (before 1)) (- (after 0) (before 0))))

# ---------------------------------------------------------------------------
# catalog and dispatch

(def catalog @[])
(defn cat [family consumer shape kind guard] (array/push catalog [family consumer shape kind guard]))

(def data-c-names (sorted (keys data-c)))
(def data-j-names (sorted (keys data-j)))
(def jdn-guarded {"fmt-j" true "printf-j" true "marshal" true "marshal-rt" true "compile-lit" true})
(each c data-c-names
  (each s data-acyclic (cat "data" c s "acyclic" "-"))
  (each s data-cyclic (cat "data" c s "cyclic" "-")))
(each c data-j-names
  (each s data-acyclic (cat "dataj" c s "acyclic" "-"))
  (each s data-cyclic (cat "dataj" c s "cyclic" "-")))
(each c parse-consumer-names (each s parse-shape-names (cat "parse" c s "acyclic" "-")))
(each c form-consumer-names (each s form-shape-names (cat "form" c s "acyclic" "-")))
(def self-referential
  # inputs that refer to themselves without being a data cycle: recursive macros, recursive grammar rules
  {"self" true "pingpong" true "ref-cycle" true "left-rec" true "self-loop" true "left-rec-tail" true "self-loop-tail" true})
(defn kind-of [s] (if (self-referential s) "cyclic" "acyclic"))
(each c macro-consumer-names (each s macro-shape-names (cat "macro" c s (kind-of s) "-")))
(each c peg-compile-consumer-names (each s peg-compile-shape-names (cat "pegc" c s (kind-of s) "-")))
(each c peg-match-consumer-names (each s peg-match-shape-names (cat "pegm" c s (kind-of s) "-")))
(each c vm-consumer-names (cat "vm" c "-" "acyclic" "-"))
(each c accum-consumer-names (each s accum-shape-names (cat "accum" c s "acyclic" "-")))
(each c image-consumer-names (each s image-shape-names (cat "image" c s "acyclic" "-")))
(each c chain-consumer-names (cat "chain" c "-" "acyclic" "-"))
(each c compose-consumer-names (cat "compose" c "-" "acyclic" "-"))
(each c tail-names (cat "tail" c "-" "tail" "-"))

(defn bounded-stack
  "Run thunk in a fiber whose stack limit fits in memory, so that unbounded Janet-level
  recursion on a cyclic input ends in the fiber's own catchable stack overflow."
  [thunk]
  (def f (fiber/new thunk :e))
  (fiber/setmaxstack f 2000000)
  (def v (resume f))
  (if (= (fiber/status f) :error) (error v) v))

(defn run-case [family consumer shape n]
  (case family
    "data" ((data-c consumer) (data-shapes shape) n)
    "dataj" (if (string/has-prefix? "cyc-" shape)
              (bounded-stack |((data-j consumer) (data-shapes shape) n))
              ((data-j consumer) (data-shapes shape) n))
    "parse" ((parse-consumers consumer) ((parse-shapes shape) n))
    "form" ((form-consumers consumer) ((form-shapes shape) n))
    "macro" ((macro-consumers consumer) ((macro-shapes shape) n))
    "pegc" ((peg-compile-consumers consumer) ((peg-compile-shapes shape) n) (or (<= n 8) (not (peg-exponential shape))))
    "pegm" ((peg-match-consumers consumer) ((peg-match-shapes shape) n))
    "vm" ((vm-consumers consumer) n)
    "accum" ((accum-consumers consumer) (accum-steps shape) n)
    "image" ((image-consumers consumer) ((image-shapes shape) n))
    "chain" ((chain-consumers consumer) n)
    "compose" ((compose-consumers consumer) n)
    "tail" (run-tail (tail-fns consumer) n)
    (errorf "unknown family %s" family)))

(defn short [x]
  (def s (if (bytes? x) (string x) (string/format "%.3q" x)))
  (def s (if (> (length s) 60) (string/slice s 0 60) s))
  (string/replace-all "\t" " " (string/replace-all "\n" " " s)))

