# C19 driver: one item = [consumer shape depth]. The handler builds the input of the
# given shape and depth, runs the consumer under `protect`, then evaluates (+ 1 2) with
# the compiler and the VM of the same process and answers
#   "<class> alive=3 <detail>"      class: val | err | cerr (compile returned an error table)
# A native crash kills the process; the batch runner attributes it to the item.
#
# `janet driver.janet --list` prints the catalog: family consumer shape kind guard
#   kind : acyclic | cyclic | tail         guard: name of a guard constant or "-"
# Guard constants are passed in by check.py (read from janet.h at run time):
#   C19_RECURSION_GUARD, C19_MAX_PROTO_DEPTH, C19_MAX_MACRO_EXPAND
(use prelude)
(use ./lib)

(defn main-list []
  (each [f c s k g] catalog (print f "\t" c "\t" s "\t" k "\t" g)))

(if (= (get (dyn :args) 1) "--list")
  (do (main-list) (os/exit 0))
  (batch-run
    (fn [item]
      (def [family consumer shape n] item)
      (def t0 (os/clock))
      (def r (protect (run-case family consumer shape n)))
      (def ms (math/round (* 1000 (- (os/clock) t0))))
      (def cls (cond
                 (r 0) "val"
                 (and (tuple? (r 1)) (= :cerr (get (r 1) 0))) "cerr"
                 "err"))
      (def detail (if (= cls "cerr") (short (get (r 1) 1)) (short (r 1))))
      (when (>= n 4096) (gccollect))
      # the same process must still compile and run code
      (def alive ((compile '(+ 1 2) (make-env))))
      (string cls " alive=" alive " ms=" ms " " detail))))
