#!/usr/bin/env python3
"""C19 - arbitrarily deep nesting or recursion yields an error, not a crash.

Exhaustive depth sweep on the real interpreter (`fast` variant: gcc -O2, 8 MiB native stack):
every (consumer, shape) pair of the catalog in lib.janet  x  every depth of a geometric sweep
1..10^6 (x2), the +-W neighbourhood of every guard constant read from janet.h at run time, and
the +-W neighbourhood of every boundary (change of outcome class) observed in the sweep, located
exactly by bisection. One batch item = (family, consumer, shape, depth); the driver builds the
input, runs the consumer under `protect` and then compiles and runs (+ 1 2) in the same process.

Oracle: an item ends in a value or a caught error and the process is still alive. A signal, an
abort or a silent exit is a violation; so is a hang on a self-referential input. janet's own
"out of memory" exit is a resource exit and is counted separately. Where a guard constant bounds
a consumer the first erroring depth must lie in a window relative to that constant (windows.json,
measured on the unchanged tree). Tail calls: 10^7 iterations with the frame count and RSS flat.
"""
import json
import os
import re
import resource
import shutil
import sys
import time

HERE = os.path.dirname(os.path.abspath(__file__))
sys.path.insert(0, os.path.join(HERE, "..", "..", "engine", "mc"))
import core  # noqa: E402
from core import *  # noqa: E402,F401,F403
HERE = os.path.dirname(os.path.abspath(__file__))

DRIVER = os.path.join(HERE, "driver.janet")
LIB = os.path.join(HERE, "lib.janet")
WINDOWS = os.path.join(HERE, "windows.json")

TOP = 10 ** 6
CHILD_CPU_SECONDS = 3000   # RLIMIT_CPU of every worker process (a chunk needs at most a few hundred)
HANG_TIMEOUT = 20          # seconds; the same items take milliseconds when they terminate
STACK_BYTES = 8 << 20

# ---------------------------------------------------------------------------------------------
# guard constants, read from the tree under test


def read_guards():
    inc = open(os.path.join(REPO, "src", "include", "janet.h")).read()
    conf = open(os.path.join(REPO, "src", "conf", "janetconf.h")).read()
    out = {}
    for name in ("JANET_RECURSION_GUARD", "JANET_MAX_PROTO_DEPTH", "JANET_MAX_MACRO_EXPAND", "JANET_STACK_MAX"):
        rx = re.compile(r"^[ \t]*#[ \t]*define[ \t]+%s[ \t]+(\S+)" % name, re.M)
        m_inc, m_conf = rx.search(inc), rx.search(conf)
        # janet.h defines the first three unconditionally (its value wins); JANET_STACK_MAX is under #ifndef
        m = (m_conf or m_inc) if name == "JANET_STACK_MAX" else (m_inc or m_conf)
        if not m:
            raise HarnessError("guard constant %s not found in janet.h / janetconf.h" % name)
        out[name] = int(m.group(1), 0)
    return out


# ---------------------------------------------------------------------------------------------
# catalog


class Pair:
    __slots__ = ("family", "consumer", "shape", "kind", "obs", "stopped")

    def __init__(self, family, consumer, shape, kind):
        self.family, self.consumer, self.shape, self.kind = family, consumer, shape, kind
        self.obs = {}          # depth -> Outcome
        self.stopped = None    # (depth, reason): no deeper items after a hang / resource exit

    @property
    def name(self):
        if self.family in ("chain", "compose"):
            return self.consumer
        if self.family in ("vm", "tail"):
            return "%s/%s" % (self.family, self.consumer)
        return "%s/%s" % (self.consumer, self.shape)

    @property
    def key(self):
        return (self.family, self.consumer, self.shape)

    def item(self, depth):
        return jdn([self.family, self.consumer, self.shape, depth])


def load_catalog():
    r = run(vjanet("fast"), [DRIVER, "--list"], timeout=60)
    if r.rc != 0:
        raise HarnessError("cannot list the catalog: %s" % r.describe())
    pairs = []
    for line in r.out.decode().split("\n"):
        if not line:
            continue
        f, c, s, k, _g = line.split("\t")
        pairs.append(Pair(f, c, s, k))
    if len(pairs) < 500:
        raise HarnessError("catalog too small: %d" % len(pairs))
    return pairs


# consumers that start with another consumer of the same family on the same input: a failure of the
# base at a depth <= d (+10 %: crash boundaries jitter) explains the failure of the derived consumer at d (same signature)
BASE = {
    ("form", "eval"): "compile", ("form", "compile-gc-disasm"): "compile", ("form", "compile-marshal"): "compile",
    ("macro", "eval"): "compile",
    ("image", "unmarshal-gc"): "unmarshal", ("image", "unmarshal-use"): "unmarshal",
    ("image", "unmarshal-marshal"): "unmarshal",
    ("chain", "asm/defs-nest-gc-disasm"): "asm/defs-nest", ("chain", "asm/defs-nest-call"): "asm/defs-nest",
    ("pegc", "peg-compile-match"): "peg-compile", ("pegc", "peg-compile-marshal"): "peg-compile",
    ("data", "marshal-rt"): "marshal", ("data", "printf-j"): "fmt-j",
    ("parse", "parse-all"): "parse", ("parse", "eval-string"): "parse",
    ("dataj", "thaw"): "proto-flatten",
    ("pegm", "peg-find"): "peg-match", ("pegm", "peg-replace"): "peg-match",
}


# Pairs whose failure is a wild jump (the function compiled from a 10000-deep `each` pattern has more than 32767
# instructions and its 16-bit jump offsets overflow silently): running it either loops for ever or segfaults,
# depending on the memory layout. Both outcomes are reported under the one signature `crash:<pair>`; such a pair runs
# one item per process with the short watchdog and is not run deeper once it has failed.
VOLATILE = {("form", "eval", "each-destructure")}


def depth_cap(p, quick):
    """Static depth caps for inputs whose cost is superlinear in the depth (documented in NOTES.md)."""
    if p.family == "form" and p.consumer == "macex":
        return 1100 if quick else 4096          # macex re-walks the whole form until a fixed point
    if (p.family == "form" and p.shape == "short-fn") or (p.family == "parse" and p.consumer == "eval-string"
                                                           and p.shape == "shortfn"):
        return 256 if quick else 512            # nested |(...) expansion is quadratic in memory (GC locked)
    if p.consumer in ("compose/comptime", "compose/compile-in-macro", "compose/quasiquote-unquote"):
        return 4096                             # input size is 500 x depth
    if p.family == "accum" and p.shape in ("step-1", "step-7"):
        return 4096                             # rounds x chain length: quadratic once the guard does not stop it
    if p.shape == "fiblist" and quick:
        return 131072                           # 10^6 live fibers cost ~30 s per item
    return TOP


# ---------------------------------------------------------------------------------------------
# running items


class Outcome:
    __slots__ = ("cls", "detail", "ms")

    def __init__(self, cls, detail, ms=0):
        self.cls, self.detail, self.ms = cls, detail, ms

    @property
    def group(self):
        return "err" if self.cls in ("err", "cerr") else self.cls


SIGNALS = {4: "SIGILL", 6: "SIGABRT", 7: "SIGBUS", 8: "SIGFPE", 9: "SIGKILL", 11: "SIGSEGV"}


def classify(status, text):
    if status == "OK":
        parts = text.split(" ", 3)
        cls = parts[0]
        if cls not in ("val", "err", "cerr") or len(parts) < 3 or parts[1] != "alive=3":
            return Outcome("DEAD", text[:200])
        m = re.match(r"ms=(\d+)", parts[2])
        return Outcome(cls, parts[3] if len(parts) > 3 else "", int(m.group(1)) if m else 0)
    if status == "ERR":
        if "unknown family" in text or "unknown" in text and "consumer" in text:
            raise HarnessError("driver error: %s" % text)
        return Outcome("DEAD", text[:200])
    if status == "TIMEOUT":
        return Outcome("TIMEOUT", "")
    m = re.match(r"rc=(-?\d+)", text)
    rc = int(m.group(1)) if m else 0
    if rc == 1 and "janet out of memory" in text:
        m2 = re.search(r"(\w+\.c:\d+) - janet out of memory", text)
        return Outcome("OOM", m2.group(1) if m2 else "")
    if rc < 0:
        return Outcome("CRASH", SIGNALS.get(-rc, "signal %d" % -rc))
    if rc >= 128:
        return Outcome("CRASH", SIGNALS.get(rc - 128, "signal %d" % (rc - 128)))
    return Outcome("EXIT", "exit code %d: %s" % (rc, text[-160:]))


class Runner:
    def __init__(self, chk, guards):
        self.chk = chk
        self.env = {"C19_RECURSION_GUARD": guards["JANET_RECURSION_GUARD"],
                    "C19_MAX_PROTO_DEPTH": guards["JANET_MAX_PROTO_DEPTH"],
                    "C19_MAX_MACRO_EXPAND": guards["JANET_MAX_MACRO_EXPAND"]}
        self.items = 0
        self.cpu_ms = 0

    def run(self, work, chunk, timeout, jobs=None, mem_mb=None):
        """work: list of (pair, depth), not yet observed. Fills pair.obs."""
        work = [(p, d) for p, d in work if d not in p.obs]
        if not work:
            return
        old = core.MEM_LIMIT
        if mem_mb:
            core.MEM_LIMIT = mem_mb * 1024 * 1024
        try:
            res = run_batch("fast", DRIVER, [p.item(d) for p, d in work], env=self.env, chunk=chunk,
                            timeout=timeout, jobs=jobs)
        finally:
            core.MEM_LIMIT = old
        if os.environ.get("C19_PROGRESS"):
            sys.stderr.write("[%.0fs] ran %d items (max depth %d, chunk %d)\n" % (
                self.chk.elapsed(), len(work), max(d for _p, d in work), chunk))
        self.record(work, res, chunk)

    def run_isolated(self, work, timeout, mem_mb=None):
        """One process per item, a single attempt each (a hang costs `timeout` once)."""
        work = [(p, d) for p, d in work if d not in p.obs]
        if not work:
            return
        exe = vjanet("fast")
        old = core.MEM_LIMIT
        if mem_mb:
            core.MEM_LIMIT = mem_mb * 1024 * 1024
        try:
            res = pmap(_one_isolated, [(exe, p.item(d), self.env, timeout) for p, d in work])
        finally:
            core.MEM_LIMIT = old
        self.record(work, res, 1)

    def record(self, work, res, chunk):
        for (p, d), (st, text) in zip(work, res):
            o = classify(st, text)
            p.obs[d] = o
            self.items += 1
            self.cpu_ms += o.ms
            self.chk.add(evaluations=1, transitions=1)
            self.chk.outcome((p.family, p.consumer, o.group))
            if o.cls in ("TIMEOUT", "OOM") and (p.stopped is None or d < p.stopped[0]):
                p.stopped = (d, o.cls)


def _one_isolated(args):
    exe, item, env, timeout = args
    d = mktmp()
    try:
        ip, op = os.path.join(d, "items.jdn"), os.path.join(d, "out.txt")
        with open(ip, "w") as f:
            f.write(item + "\n")
        r = run(exe, [DRIVER, ip, op], env=env, timeout=timeout)
        res, _begun, done, fatal = core._parse_out(op)
        if fatal:
            raise HarnessError("batch driver fatal: %s" % fatal)
        if r.timed_out:
            return ("TIMEOUT", r.describe())
        if done and 0 in res and not r.crashed:
            return res[0]
        return ("CRASH", r.describe())
    finally:
        shutil.rmtree(d, ignore_errors=True)


def interleave(work, nchunks):
    """Order work so that contiguous chunks of the result mix cheap and expensive items."""
    work = sorted(work, key=lambda pd: (-pd[1], pd[0].key))
    cols = [work[i::nchunks] for i in range(nchunks)]
    return [x for c in cols for x in c]


# ---------------------------------------------------------------------------------------------
# depth schedule


def sweep_depths(guards, quick, width):
    ds = set()
    d = 1
    while d < TOP:
        ds.add(d)
        d *= 2
    ds.add(TOP)
    if not quick:
        # thorough: the sweep is refined to factor sqrt(2)
        d = 1.0
        while d < TOP:
            ds.add(int(round(d)))
            d *= 2 ** 0.5
    near = set()
    for name in ("JANET_RECURSION_GUARD", "JANET_MAX_PROTO_DEPTH", "JANET_MAX_MACRO_EXPAND"):
        g = guards[name]
        for k in range(-width, width + 1):
            if 1 <= g + k <= TOP:
                near.add(g + k)
    return sorted(ds | near), sorted(near)


# ---------------------------------------------------------------------------------------------
# replay files


def replay_text(p, depth, guards, note):
    lib = open(LIB).read()
    lib = re.sub(r"\(def RG [^\n]*\n", "(def RG %d) # JANET_RECURSION_GUARD of the tree under test\n"
                 % guards["JANET_RECURSION_GUARD"], lib, count=1)
    out = []
    out.append("# case: family=%s consumer=%s shape=%s depth=%d\n" % (p.family, p.consumer, p.shape, depth))
    if note:
        out.append("# minimal form of the same failure:\n")
        for line in note.strip().split("\n"):
            out.append("#   %s\n" % line)
    out.append("# Expected: prints `outcome: ...` and `(+ 1 2) = 3`. A violation ends before that (signal, exit, hang).\n\n")
    out.append(lib)
    out.append("\n# ---- the case ----\n")
    out.append("(def case-result (protect (run-case %s %s %s %d)))\n" % (jdn(p.family), jdn(p.consumer), jdn(p.shape), depth))
    out.append("(print \"outcome: \" (if (case-result 0) \"value\" \"caught error\"))\n")
    out.append("(print \"(+ 1 2) = \" ((compile '(+ 1 2) (make-env))))\n")
    return "".join(out)


MINIMAL = {
    "crash:compile/def-destructure":
        "python3 -c \"n=100000;print('(def '+'['*n+'a'+']'*n+' nil)')\" > x.janet; janet x.janet",
    "crash:unmarshal/funcdef-nest":
        "(unmarshal (string \"\\xD7\\x00\" (string/repeat \"\\xCD\\x00\\x20\\x00\\x00\\x00\\x00\\x00\\x00\\x00\\x00\\x01\" 100000)))",
    "crash:asm/defs-nest":
        "(var d {:bytecode '[(ldn 0) (ret 0)] :slotcount 1 :arity 0})\n"
        "(repeat 100000 (set d {:bytecode '[(clo 0 0) (ret 0)] :slotcount 1 :arity 0 :defs [d]}))\n(asm d)",
    "crash:gc/fiber-env-chain":
        "(defn step [] (var x 0) (def nxt (fn [] (++ x) (+ 0 (step)))) (yield nxt) x)\n"
        "(var fib (fiber/new step)) (repeat 100000 (set fib (fiber/new (resume fib)))) (resume fib) (gccollect)",
    "crash:compose/comptime":
        "(defn form [levels] (var x 1) (repeat levels (repeat 900 (set x ['+ 1 x])) (set x ['comptime x])) x)\n(eval (form 60))",
    "crash:compose/quasiquote-unquote":
        "(defn form [levels] (var x 1) (repeat levels (repeat 900 (set x [x])) (set x ['unquote ['quasiquote x]])) ['quasiquote x])\n"
        "(compile (form 40))",
    "crash:compose/peg-in-peg":
        "(def text (string (string/repeat \"(\" 300) \"x\" (string/repeat \")\" 300))) (var level 0) (var g nil)\n"
        "(defn cb [x] (when (< level 300) (++ level) (peg/match g text) (-- level)) x)\n"
        "(set g (peg/compile ~{:main (+ (* \"(\" :main \")\") (cmt (capture \"x\") ,cb))})) (peg/match g text)",
    "hang:proto-flatten/cyc-tproto": "(def t @{}) (table/setproto t t) (table/proto-flatten t)",
    "hang:env-lookup/cyc-tproto": "(def t @{}) (table/setproto t t) (env-lookup t)",
    "hang:all-bindings/cyc-tproto": "(def t @{}) (table/setproto t t) (all-bindings t)",
    "hang:peg-match/left-rec-tail": "(peg/match ~{:main (+ \"a\" :main)} \"b\")",
    "hang:peg-match/self-loop-tail": "(peg/match ~{:main (* \"\" :main)} \"a\")",
}


# ---------------------------------------------------------------------------------------------
# main


def main():
    chk = Check("C19", description=__doc__)
    quick = chk.quick
    width = 3 if quick else 8
    only = set(chk.args.only.split(",")) if chk.args.only else None
    if chk.args.budget is None and "VERIF_BUDGET" not in os.environ and quick:
        chk.budget = 420.0      # soft deadline between depth rounds; ~3 min expected on 16 idle cores

    # what users run: the default 8 MiB native stack, whatever the caller's shell says
    soft, hard = resource.getrlimit(resource.RLIMIT_STACK)
    if soft != STACK_BYTES:
        try:
            resource.setrlimit(resource.RLIMIT_STACK, (STACK_BYTES, hard))
        except (ValueError, OSError) as e:
            raise HarnessError("cannot set the 8 MiB stack limit: %s" % e)

    # a worker that loops for ever must not outlive this check if the check itself is killed: cap its CPU time
    _orig_limit = core._limit_memory

    def _limit_memory_and_cpu():
        _orig_limit()
        try:
            resource.setrlimit(resource.RLIMIT_CPU, (CHILD_CPU_SECONDS, CHILD_CPU_SECONDS + 5))
        except (ValueError, OSError):
            pass
    core._limit_memory = _limit_memory_and_cpu

    guards = read_guards()
    pairs = load_catalog()
    if only:
        pairs = [p for p in pairs if p.family in only or p.name in only]
    bykey = {p.key: p for p in pairs}
    depths, near = sweep_depths(guards, quick, width)
    run = Runner(chk, guards)

    chk.rule("every (consumer, shape) pair of the catalog (lib.janet: data consumers x container kinds and rings, parser "
             "inputs, compiler forms, macros, PEG compile/match, interpreter recursion and re-entry, crafted images, "
             "collector/assembler chains, compositions, tail calls) x every depth in {geometric sweep 1..10^6 x2%s, "
             "+-%d of each guard constant read from janet.h, +-%d of each observed boundary located by bisection}; "
             "superlinear-cost pairs are swept to a stated lower cap%s. A distinct non-trivial case is a pair whose outcome "
             "class changes along the sweep." % ("" if quick else " refined to sqrt(2)", width, width,
                                                 "; quick tier: consumers that merely extend another consumer of the catalog "
                                                 "(eval = compile + run, ...) stop at 131072" if quick else ""))
    chk.assume("fast variant (gcc -O2, per-file objects of the same sources), RLIMIT_STACK 8 MiB, address space capped at "
               "6 GB by the engine: janet's own out-of-memory exit is a resource exit, not a violation; Janet-level "
               "recursion on cyclic data is run in a fiber with fiber/setmaxstack 2*10^6 so that its catchable stack "
               "overflow arrives before memory runs out (the default JANET_STACK_MAX needs 16 GiB); timeouts only decide "
               "for self-referential inputs (30 s against an expected few ms)")

    sweep_pairs = [p for p in pairs if p.kind != "tail"]
    tail_pairs = [p for p in pairs if p.kind == "tail"]
    cap = {p.key: depth_cap(p, quick) for p in sweep_pairs}

    def sched(p, d):
        if quick and d > 131072 and (p.family, p.consumer) in BASE and (p.family, BASE[(p.family, p.consumer)], p.shape) in bykey:
            return False    # quick tier: above 131072 a derived consumer (eval = compile + run, ...) is covered by its base
        return d <= cap[p.key] and d not in p.obs and (p.stopped is None or d < p.stopped[0])

    # -- round 0: every self-referential pair at size 1, one process per item with a short watchdog:
    #    finds the inputs on which a consumer loops for ever (later sizes of such a pair are not run)
    run.run_isolated([(p, 1) for p in sweep_pairs if p.kind == "cyclic"], timeout=HANG_TIMEOUT, mem_mb=1500)
    chk.part("round0", items=run.items, wall_s=round(chk.elapsed(), 1))

    # -- the sweep, ascending. Pairs that already crashed run one item per process (a crash costs the
    #    batch runner a re-run of the rest of the chunk).
    def crashed_pairs():
        return {p.key for p in sweep_pairs if any(o.cls in ("CRASH", "EXIT", "DEAD") for o in p.obs.values())}

    def run_split(work, nchunks, timeout, jobs=None):
        loud_keys = crashed_pairs()
        vol = [w for w in work if w[0].key in VOLATILE]
        work = [w for w in work if w[0].key not in VOLATILE]
        calm = [w for w in work if w[0].key not in loud_keys]
        loud = [w for w in work if w[0].key in loud_keys]
        run.run(interleave(calm, nchunks), chunk=max(4, len(calm) // nchunks + 1), timeout=timeout, jobs=jobs)
        run.run_isolated(loud, timeout=60 if quick else 300)
        for w in sorted(vol, key=lambda w: w[1]):
            if sched(*w):
                run.run_isolated([w], timeout=HANG_TIMEOUT)
                o = w[0].obs[w[1]]
                if o.cls in ("TIMEOUT", "CRASH") and w[0].stopped is None:
                    w[0].stopped = (w[1], o.cls)

    rounds_small = [[d for d in depths if lo < d <= hi] for lo, hi in ((1, 16), (16, 128), (128, 1100), (1100, 4096))]
    for ds in rounds_small:
        work = [(p, d) for p in sweep_pairs for d in ds if sched(p, d)]
        run_split(work, 64, 240)
        chk.part("depths_%d_%d" % (ds[0], ds[-1]), items=len(work), wall_s=round(chk.elapsed(), 1))
    for d in [d for d in depths if d > 4096]:
        if chk.out_of_time(0.7):
            chk.cap("depth sweep stopped before depth %d (time budget)" % d)
            break
        work = [(p, d) for p in sweep_pairs if sched(p, d)]
        run_split(work, 48, 90 if d < 100000 else (400 if quick else 900), jobs=16 if d < (1 << 18) else 12)
        chk.part("depth_%d" % d, items=len(work), wall_s=round(chk.elapsed(), 1))
        chk.cov["bound_completed"] = "depth %d" % d

    # -- boundaries: bisection between consecutive observed depths whose outcome class differs
    def open_intervals(p):
        ds = sorted(p.obs)
        out = []
        for a, b in zip(ds, ds[1:]):
            ga, gb = p.obs[a].group, p.obs[b].group
            if ga != gb and b - a > 1 and ga in ("val", "err", "CRASH") and gb in ("val", "err", "CRASH"):
                out.append((a, b))
        return out

    rounds = 0
    while not chk.out_of_time(0.85):
        work = []
        for p in sweep_pairs:
            for a, b in open_intervals(p):
                m = (a + b) // 2
                if sched(p, m):
                    work.append((p, m))
        if not work:
            break
        rounds += 1
        run_split(work, 32, 600)
        if rounds > 40:
            raise HarnessError("bisection does not converge")
    else:
        chk.cap("boundary bisection not finished (time budget)")
    chk.part("bisection", rounds=rounds, wall_s=round(chk.elapsed(), 1))

    def boundaries(p):
        """[(depth, class before, class after)] for adjacent observed depths"""
        ds = sorted(p.obs)
        return [(b, p.obs[a].group, p.obs[b].group) for a, b in zip(ds, ds[1:])
                if b - a == 1 and p.obs[a].group != p.obs[b].group]

    work = []
    for p in sweep_pairs:
        for b, _ga, _gb in boundaries(p):
            for d in range(max(1, b - width), b + width + 1):
                if sched(p, d):
                    work.append((p, d))
    work = sorted(set(work), key=lambda w: (w[0].key, w[1]))
    run_split(work, 32, 600)
    chk.part("neighbourhoods", items=len(work), wall_s=round(chk.elapsed(), 1))

    # -- tail calls
    tail_ns = [10 ** 6, 10 ** 7] if quick else [10 ** 6, 10 ** 7, 3 * 10 ** 7]
    run.run([(p, n) for p in tail_pairs for n in tail_ns], chunk=1, timeout=600)

    # ---------------------------------------------------------------------------------------
    # verdicts

    def sig_pair(p, d):
        """the pair whose signature explains a failure of p at depth d (base consumer if it fails too)"""
        b = BASE.get((p.family, p.consumer))
        if b:
            q = bykey.get((p.family, b, p.shape))
            if q and any(o.cls in ("CRASH", "EXIT", "DEAD", "TIMEOUT", "OOM") and dd <= d * 1.1 + 8 for dd, o in q.obs.items()):
                return sig_pair(q, d)
        return p

    nontrivial = 0
    observed = {}
    stats = dict(val=0, err=0, crash=0, exit=0, dead=0, timeout=0, oom=0)
    oom_acyclic = []
    for p in sweep_pairs:
        groups = [p.obs[d].group for d in sorted(p.obs)]
        if len(set(groups)) > 1:
            nontrivial += 1
        bs = boundaries(p)
        if bs:
            observed["%s:%s" % (p.family, p.name)] = ["%s->%s@%d" % (ga, gb, b) for b, ga, gb in bs]
        fails = {}
        for d in sorted(p.obs):
            o = p.obs[d]
            if o.cls in ("val",):
                stats["val"] += 1
            elif o.cls in ("err", "cerr"):
                stats["err"] += 1
            elif o.cls == "CRASH":
                stats["crash"] += 1
                fails.setdefault("crash", []).append(d)
            elif o.cls == "EXIT":
                stats["exit"] += 1
                fails.setdefault("exit", []).append(d)
            elif o.cls == "DEAD":
                stats["dead"] += 1
                fails.setdefault("dead", []).append(d)
            elif o.cls == "TIMEOUT":
                stats["timeout"] += 1
                if p.key in VOLATILE:
                    fails.setdefault("crash", []).append(d)
                elif p.kind == "cyclic":
                    fails.setdefault("hang", []).append(d)
                else:
                    chk.cap("timeout (not a verdict) on acyclic input %s depth %d" % (p.name, d))
            elif o.cls == "OOM":
                stats["oom"] += 1
                if p.kind == "cyclic" and p.family == "dataj":
                    # the fiber stack is bounded for these items: memory exhaustion is an unbounded loop
                    fails.setdefault("hang", []).append(d)
                else:
                    oom_acyclic.append("%s@%d(%s)" % (p.name, d, o.detail))
        for kind, ds in fails.items():
            d0 = ds[0]
            q = sig_pair(p, d0)
            sig = "%s:%s" % (kind, q.name)
            o = p.obs[d0]
            what = {"crash": ("killed by %s" % o.detail if o.cls == "CRASH" else
                              "loops for ever (wild jump; the same case segfaults under another memory layout)"), "exit": "process exited silently (%s)" % o.detail,
                    "dead": "process could not evaluate (+ 1 2) afterwards: %s" % o.detail,
                    "hang": ("did not finish within the timeout" if o.cls == "TIMEOUT"
                             else "looped until memory ran out (%s)" % o.detail)}[kind]
            # replay a little above the smallest failing depth: frame sizes differ between builds
            dr = max([d for d in ds if d <= 4 * d0] or [d0])
            chk.violation(sig, "%s %s depth %d: %s; smallest failing depth %d, %d of %d tested depths fail%s" % (
                p.family, p.name, d0, what, d0, len(ds), len(p.obs),
                "" if q is p else " (explained by %s)" % q.name),
                replay_text(p, dr, guards, MINIMAL.get(sig)), replay_cmd="janet <this file>   # default 8 MiB stack")

    # guard windows
    windows = json.load(open(WINDOWS)) if os.path.exists(WINDOWS) else {}
    checked = 0
    for p in sweep_pairs:
        w = windows.get("%s:%s" % (p.family, p.name))
        if not w:
            continue
        g = guards[w["guard"]]
        centre = g / float(w["div"])
        lo, hi = int(centre + w["lo"]), int(centre + w["hi"]) + 1
        ds = sorted(p.obs)
        if not ds or max(ds) < min(cap[p.key], hi):
            continue        # sweep did not reach the window for this pair (caps are reported elsewhere)
        if any(p.obs[d].group not in ("val", "err") for d in ds):
            continue        # crashes / hangs are reported on their own
        bad = [d for d in ds if p.obs[d].group != "val"]
        checked += 1
        if not bad:
            chk.violation("guard-missing:%s" % p.name,
                          "%s %s: no error at any depth up to %d although %s=%d bounds it (expected the first error in [%d, %d])"
                          % (p.family, p.name, max(ds), w["guard"], g, lo, hi),
                          replay_text(p, max(ds), guards, None))
        elif not (lo <= bad[0] <= hi):
            chk.violation("guard-moved:%s" % p.name,
                          "%s %s: first error at depth %d, expected within [%d, %d] (%s=%d, %g nesting levels per unit depth)" % (
                              p.family, p.name, bad[0], lo, hi, w["guard"], g, w["div"]),
                          replay_text(p, bad[0], guards, None))
    chk.part("guard_windows", pairs_checked=checked, table=len(windows))

    # tail calls
    for p in tail_pairs:
        for n, o in sorted(p.obs.items()):
            m = re.match(r"result=(\d+) frames=(\d+)/(\d+) rss=(-?\d+) vsz=(-?\d+)", o.detail or "")
            if o.cls != "val" or not m:
                chk.violation("tail:%s:failed" % p.consumer, "tail call chain %s of %d iterations: %s %s" % (
                    p.consumer, n, o.cls, o.detail), replay_text(p, n, guards, None))
                continue
            res, f0, f1, rss, vsz = map(int, m.groups())
            chk.outcome(("tail", p.consumer, f1))
            if res != n or f0 != f1 or rss * 4096 > (32 << 20) or vsz * 4096 > (64 << 20):
                chk.violation("tail:%s:space" % p.consumer,
                              "tail call chain %s of %d iterations: result %d, frames at the leaf %d (1000 iterations) vs %d, "
                              "RSS grew %d pages, VSZ grew %d pages" % (p.consumer, n, res, f0, f1, rss, vsz),
                              replay_text(p, n, guards, None))
            chk.part("tail_" + p.consumer, n=n, frames=f1, rss_pages=rss, vsz_pages=vsz)

    capped = sorted("%s<=%d" % (p.name, cap[p.key]) for p in sweep_pairs if cap[p.key] < TOP)
    stopped = sorted("%s@%d:%s" % (p.name, p.stopped[0], p.stopped[1]) for p in sweep_pairs if p.stopped)
    chk.add(states=len(pairs))
    chk.cov["distinct_nontrivial"] = nontrivial
    chk.part("outcomes", **stats)
    chk.part("guards", **guards)
    chk.part("schedule", pairs=len(pairs), sweep_depths=len(depths), guard_neighbourhood=len(near),
             max_depth=max(depths), items=run.items, consumer_cpu_s=round(run.cpu_ms / 1000.0, 1))
    chk.cov["parts"]["depth_capped_pairs"] = capped
    chk.cov["parts"]["stopped_after_hang_or_oom"] = stopped
    chk.cov["parts"]["resource_exits"] = oom_acyclic[:200]
    chk.cov["parts"]["boundaries"] = observed
    if "stopped before" not in " ".join(chk.cov["caps_hit"]):
        chk.cov["bound_completed"] = "depth %d (x2 sweep%s), +-%d around %d guard depths and every observed boundary" % (
            max(depths), "" if quick else " refined to sqrt2", width, len(near))
    some = [p for p in sweep_pairs if p.obs]
    for p in (some[0], some[len(some) // 2], some[-1]) if some else ():
        d = max(p.obs)
        chk.sample({"item": p.item(d), "outcome": p.obs[d].cls, "detail": p.obs[d].detail[:80]})
    if os.environ.get("C19_DUMP"):
        with open(os.environ["C19_DUMP"], "w") as f:
            json.dump({"%s:%s" % (p.family, p.name): {str(d): [o.cls, o.ms, o.detail[:60]] for d, o in sorted(p.obs.items())}
                       for p in pairs}, f, indent=0)
    chk.finish()


if __name__ == "__main__":
    harness_guard(main)
