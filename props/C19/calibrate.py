#!/usr/bin/env python3
"""Maintenance tool (not run by bin/check): derive windows.json from a dump of an all-green sweep on the
unchanged tree:  C19_DUMP=/tmp/C19_dump.json bin/check C19 --tier thorough ; python3 calibrate.py /tmp/C19_dump.json
(add --merge after the dump path to keep existing windows when the dump comes from a partial `--only` run)

For every acyclic pair whose outcome is `val` below some depth b and a caught error from b on (monotone),
and whose limit is a guard constant of janet.h, record the window of the first erroring depth relative to
the constant G:   first error in [G/div + lo, G/div + hi]   (div = nesting levels consumed per unit depth).
check.py reads G from janet.h at run time, so a changed constant moves the expected boundary.
"""
import json
import os
import re
import sys

HERE = os.path.dirname(os.path.abspath(__file__))


def guard_of(key):
    fam, name = key.split(":", 1)
    if fam == "macro":
        if name.startswith("macex"):
            return None                      # boot.janet's macex has its own literal limit (200)
        return "JANET_MAX_MACRO_EXPAND"
    if fam == "form" and name.startswith("macex/"):
        return None
    if name in ("get-deepest/tproto", "get-deepest/sproto"):
        return "JANET_MAX_PROTO_DEPTH"
    if fam in ("dataj", "tail"):
        return None                          # Janet-level recursion: bounded by memory / JANET_STACK_MAX only
    if name.startswith("vm/small-maxstack"):
        return None                          # limit set by the test itself
    return "JANET_RECURSION_GUARD"


def main():
    dump = json.load(open(sys.argv[1]))
    inc = open(os.path.join(os.environ.get("VERIF_REPO", "/repo"), "src", "include", "janet.h")).read()
    G = {n: int(re.search(r"#define\s+%s\s+(\S+)" % n, inc).group(1), 0)
         for n in ("JANET_RECURSION_GUARD", "JANET_MAX_MACRO_EXPAND", "JANET_MAX_PROTO_DEPTH")}
    out = {}
    for key, obs in sorted(dump.items()):
        g = guard_of(key)
        if not g:
            continue
        ds = sorted((int(d), v[0]) for d, v in obs.items())
        grp = [(d, "err" if c in ("err", "cerr") else c) for d, c in ds]
        if any(c not in ("val", "err") for _d, c in grp):
            continue                         # pairs with crashes / hangs / resource exits have no window
        bad = [d for d, c in grp if c != "val"]
        if not bad or bad[0] == grp[0][0]:
            continue                         # never errors, or errors from depth 1 (not a depth limit)
        b = bad[0]
        if any(c == "val" for d, c in grp if d > b):
            continue                         # not monotone
        if b - 1 not in dict(grp):
            continue                         # boundary not pinned exactly
        if key.startswith("macro:") and abs(b - G["JANET_MAX_MACRO_EXPAND"]) > 40:
            g = "JANET_RECURSION_GUARD"      # recursive macros that nest their expansion hit the compiler's guard first
        # nesting levels consumed per unit depth: snap to a simple ratio when one fits
        best = min((0.25, 0.5, 1, 2, 3, 4, 5, 6, 8), key=lambda k: abs(G[g] / k - b))
        if abs(G[g] / best - b) <= max(8, 0.03 * G[g] / best):
            div = float(best)
        else:
            div = round(G[g] / float(b), 4)
        centre = G[g] / div
        tol = max(8, int(0.03 * centre))
        off = int(round(b - centre))
        out[key] = {"guard": g, "div": div, "lo": off - tol, "hi": off + tol,
                    "measured_first_error": b, "measured_with": G[g]}
    if "--merge" in sys.argv:
        # keep the windows of pairs that are not in this (partial, e.g. --only <family>) dump
        old = json.load(open(os.path.join(HERE, "windows.json")))
        old.update(out)
        out = old
    with open(os.path.join(HERE, "windows.json"), "w") as f:
        json.dump(out, f, indent=0, sort_keys=True)
    print("%d windows written" % len(out))


if __name__ == "__main__":
    main()
