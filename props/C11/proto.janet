# C11 -- the canonical parser protocol and the event printer.
# Stand-alone (core functions only) so that replay files can embed this text
# and run on the plain `janet` binary.
#
# Event log (one line per event):
# Strings, symbols, keywords and buffers print as <tag><length>:<raw bytes>.
#   V<line>:<col> <value>   a produced value; line/col from the wrapping tuple
#                           (parser/produce p true); nested tuples print their
#                           own source map as (l:c ...)
#   E<line>:<col> <msg>     a parse error; line/col = (parser/where p) when the
#                           error is taken (what bad-parse prints)
#   W<line>:<col> <status>  final (parser/where p) and status after eof

(defn c11/esc [s b]
  (each c s
    (cond
      (= c 34) (buffer/push b "\\\"")
      (= c 92) (buffer/push b "\\\\")
      (and (>= c 32) (< c 127)) (buffer/push-byte b c)
      (buffer/format b "\\x%02x" c)))
  b)

(defn c11/num [x b]
  (cond
    (not= x x) (buffer/push b "nan")
    (= x math/inf) (buffer/push b "inf")
    (= x (- math/inf)) (buffer/push b "-inf")
    (and (= x 0) (< (/ 1 x) 0)) (buffer/push b "-0")
    (and (= x (math/trunc x)) (< (math/abs x) 1e15)) (buffer/format b "%d" x)
    (buffer/format b "%.17g" x)))

(varfn c11/vprint [x b] nil)

(defn- kvs [ds b open close]
  (buffer/push b open)
  (def n (length ds))
  (if (< n 2)
    (eachp [k v] ds (c11/vprint k b) (buffer/push b " ") (c11/vprint v b))
    (do
      # pointer-hashed keys make the iteration order unstable: sort by text
      (def parts (seq [[k v] :pairs ds]
                   (def kb @"")
                   (c11/vprint k kb) (buffer/push kb " ") (c11/vprint v kb)
                   (string kb)))
      (sort parts)
      (var first true)
      (each p parts
        (if first (set first false) (buffer/push b " "))
        (buffer/push b p))))
  (buffer/push b close))

(defn- raw [tag x b]
  # length-prefixed raw bytes: unambiguous and needs no per-byte loop
  (buffer/format b "%s%d:" tag (length x))
  (buffer/push b x))

(varfn c11/vprint [x b]
  (case (type x)
    :nil (buffer/push b "nil")
    :boolean (buffer/push b (if x "true" "false"))
    :number (c11/num x b)
    :symbol (raw "'" x b)
    :keyword (raw ":" x b)
    :string (raw "\"" x b)
    :buffer (raw "@\"" x b)
    :tuple (let [br (= :brackets (tuple/type x))
                 [l c] (tuple/sourcemap x)]
             (buffer/push b (if br "[" "("))
             (buffer/format b "%d:%d" l c)
             (each v x (buffer/push b " ") (c11/vprint v b))
             (buffer/push b (if br "]" ")")))
    :array (do
             (buffer/push b "@[")
             (var first true)
             (each v x (if first (set first false) (buffer/push b " ")) (c11/vprint v b))
             (buffer/push b "]"))
    :struct (kvs x b "{" "}")
    :table (kvs x b "@{" "}")
    (buffer/format b "<%s %s>" (type x) (string x)))
  b)

(defn c11/drain
  "canonical protocol, second half: drain values, then take the error"
  [p ev]
  (def sh (dyn :c11-shape))
  (while (parser/has-more p)
    (def tup (parser/produce p true))
    (if (and (tuple? tup) (= 1 (length tup)))
      (do
        (def [l c] (tuple/sourcemap tup))
        (buffer/format ev "V%d:%d " l c)
        (c11/vprint (in tup 0) ev)
        (when sh (buffer/push sh "V" (type (in tup 0)) ";")))
      (do
        # never happens on a healthy parser: has-more was true but produce gave no wrapped value
        (buffer/push ev "V?:? not-a-wrapped-value ")
        (c11/vprint tup ev)))
    (buffer/push ev "\n"))
  (when (= :error (parser/status p))
    (def [l c] (parser/where p))
    (def m (parser/error p))
    (buffer/format ev "E%d:%d " l c)
    (buffer/push ev m "\n")
    (when sh (buffer/push sh "E" (string/slice m 0 (min 24 (length m))) ";"))))

(defn c11/feed
  "canonical protocol (run-context): consume, drain, take error, continue"
  [p chunk ev]
  (var i 0)
  (def n (length chunk))
  (while (< i n)
    (+= i (parser/consume p chunk i))
    (c11/drain p ev)))

(defn c11/finish [p ev]
  (parser/eof p)
  (c11/drain p ev)
  (def [l c] (parser/where p))
  (buffer/format ev "W%d:%d %s" l c (parser/status p))
  ev)

(defn c11/whole
  "reference: the whole input in one consume call"
  [s]
  (def p (parser/new))
  (def ev @"")
  (c11/feed p s ev)
  (string (c11/finish p ev)))

(defn c11/chunked
  "feed s cut at the given ascending cut positions (0 < cut < n)"
  [s cuts]
  (def p (parser/new))
  (def ev @"")
  (var start 0)
  (each c cuts
    (c11/feed p (string/slice s start c) ev)
    (set start c))
  (c11/feed p (string/slice s start) ev)
  (string (c11/finish p ev)))
