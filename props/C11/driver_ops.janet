# C11 part F driver: operation histories on one parser object (K2).
#   [:ops "alphabet" depth "prefix"]   every history of exactly `depth` operations that starts
#                                      with prefix; invariants are checked after every operation,
#                                      so every shorter history is covered as a prefix
# Operations (one char each):
#   any of  a ( ) " space 1 ...   consume that byte (parser/consume p "<byte>")
#   p  parser/produce      e  parser/error      f  parser/flush     s  parser/state (observe)
#   z  parser/eof          c  continue on a clone of the parser
# Invariants after every operation (only what the docstrings in parse.c promise):
#   I1 queue     the root frame of (parser/state p :frames) lists exactly the values that
#                produce will deliver (checked on a clone), has-more <=> that list is non-empty
#   I2 flush     after parser/flush, and after a parser/error that returned a message ("also
#                flushes the parser state and parser queue"): queue empty, one root frame, no
#                delimiters
#   I3 latch     status :error  => consume raises and changes nothing; parser/error then returns a
#                message and the status is no longer :error; status :dead => consume and eof raise
#   I4 restart   after a flush in a non-error, non-dead state the parser continues exactly like a
#                fresh parser placed at the same line/column (fixed tail fed to both)
# With C11_OPS_ASAN set (ASan build) parser/state is not called while the parser is "tainted"
# (flush/error executed while values were queued): that state is reported by I1/I2 in the fast
# build under its own signature and would otherwise abort every such history here.
(use prelude)
(import ./proto :prefix "")
(import ./opslib :prefix "")

# Garbage values can sit in a root-frame args array when invariant I1 is broken (stale count):
# never let the collector look at them -- collect only between histories.
(verif/gc-mode "never")

(def worst @{})   # law -> @[history count detail]

(defn record [e]
  (def [_ law0 hist detail] (string/split "\t" e 0 4))
  (def lastop (in hist (- (length hist) 1)))
  (def law (string law0 ":after-" (case lastop
                                    (chr "f") "flush" (chr "e") "flush" (chr "p") "produce" (chr "s") "state"
                                    (chr "z") "eof" (chr "c") "clone" "consume")))
  (if-let [w (in worst law)]
    (do
      (put w 1 (+ 1 (in w 1)))
      (when (or (< (length hist) (length (in w 0))) (and (= (length hist) (length (in w 0))) (< hist (in w 0))))
        (put w 0 hist) (put w 2 detail)))
    (put worst law @[hist 1 detail])))


(defn enum [alpha depth prefix]
  (def k (length alpha))
  (def free (- depth (length prefix)))
  (def idx (array/new-filled free 0))
  (def buf (buffer prefix (string/repeat "\0" free)))
  (def base (length prefix))
  (var going true)
  (while going
    (loop [i :range [0 free]] (put buf (+ base i) (in alpha (in idx i))))
    (try (run-history (string buf))
      ([e] (if (and (bytes? e) (string/has-prefix? "BAD\t" e)) (record e) (error e))))
    (when (= 0 (% nhist 256)) (gccollect))
    (var i (- free 1))
    (while (and (>= i 0) (= (in idx i) (- k 1))) (put idx i 0) (-- i))
    (if (< i 0) (set going false) (put idx i (+ 1 (in idx i))))))

(batch-run
  (fn [item]
    (set nops 0) (set nhist 0)
    (each k (keys outcomes) (put outcomes k nil))
    (each k (keys worst) (put worst k nil))
    (enum (in item 1) (in item 2) (in item 3))
    (gccollect)
    (string "ok\t" nhist "\t" nops "\t" (string/join (sort (keys outcomes)) ",") "\t"
            (string/join (seq [k :in (sort (keys worst))] (string k "=" (get-in worst [k 0]) "=" (get-in worst [k 1]) "=" (get-in worst [k 2]))) "\x01"))))
