# C11 part A/B driver: "parser output is a function of the bytes".
# One batch item = one input string, or one family of strings
#   [:str "bytes"]                       one string
#   [:enum "alphabet" n "prefix"]        all strings of length n over the alphabet
#                                        that start with prefix
# For every string s the driver runs, against the reference (s fed WHOLE with
# the canonical protocol):
#   chunk   every chunking (all 2^(n-1) for n <= max-all, else byte-at-a-time,
#           every 1-cut, every 2-cut (n <= 64), fixed sizes 2,3,4,5,7)
#   query   byte-at-a-time with every pure query before/after every byte; the
#           queries must not change anything they report
#   prefix  for every k: the observation (status, has-more, where, state) and the
#           events after s[:k] fed byte-wise == after s[:k] fed as one chunk
#   clone   for every k: clone after s[:k]; clone and original continue
#           independently (remainder on the clone, a poison suffix on the
#           original, in both orders); raw clone (pending values / latched
#           error not yet drained) continues to the same result
# Result: "ok ..." with counters, or "DIFF\t<kind>\t<hex s>\t<detail>".

(use prelude)
(import ./proto :prefix "")
(import ./chunklib :prefix "")

(defn enum [alpha n prefix]
  (def k (length alpha))
  (def free (- n (length prefix)))
  (def idx (array/new-filled free 0))
  (def buf (buffer prefix (string/repeat "\0" free)))
  (def base (length prefix))
  (var going true)
  (while going
    (loop [i :range [0 free]] (put buf (+ base i) (in alpha (in idx i))))
    (check-string (string buf))
    # increment
    (var i (- free 1))
    (while (and (>= i 0) (= (in idx i) (- k 1)))
      (put idx i 0)
      (-- i))
    (if (< i 0) (set going false) (put idx i (+ 1 (in idx i))))))

(batch-run
  (fn [item]
    (set runs 0) (set nstr 0)
    (each k (keys shapes) (put shapes k nil))
    (def r (try
             (do
               (case (in item 0)
                 :str (check-string (in item 1))
                 :enum (enum (in item 1) (in item 2) (in item 3))
                 (error "bad item"))
               nil)
             ([e] (if (and (bytes? e) (string/has-prefix? "DIFF\t" e)) (string e) (error e)))))
    (or r
        (string "ok\t" nstr "\t" runs "\t"
                (string/join (map hex (sort (keys shapes))) ",")))))
