"""C11 reference side (Python, stdlib only).

1. Text generation FROM value trees: the expected parse result (values, the
   source positions of every tuple, the final parser position) is known by
   construction -- no hand-written parser is involved.
2. The line/column convention (documented in NOTES.md).
3. UTF-8 "encoding only" validity as documented in parse.c's comment.
4. Expected text of proto.janet's value printer (c11/vprint).
"""
import struct as _struct
from fractions import Fraction

# symbol characters: parse.c comment above janet_is_symbol_char + the table
SYMCHARS = frozenset(b"!$%&*+-./0123456789:<=>?@ABCDEFGHIJKLMNOPQRSTUVWXYZ^_abcdefghijklmnopqrstuvwxyz") | frozenset(range(128, 256))
WHITESPACE = frozenset(b" \t\n\r\0\v\f")


def valid_utf8(bs):
    """parse.c: 'Only validates the encoding, does not check for valid code
    points'; 1-4 byte forms, continuation bytes 10xxxxxx, no overlong forms."""
    i, n = 0, len(bs)
    while i < n:
        c = bs[i]
        if c < 0x80:
            k = 1
        elif c >> 5 == 0b110:
            k = 2
        elif c >> 4 == 0b1110:
            k = 3
        elif c >> 3 == 0b11110:
            k = 4
        else:
            return False
        if i + k > n:
            return False
        for j in range(i + 1, i + k):
            if bs[j] >> 6 != 0b10:
                return False
        # overlong: the value would fit a shorter form
        if k == 2 and c < 0xC2:
            return False
        if k == 3 and c == 0xE0 and bs[i + 1] < 0xA0:
            return False
        if k == 4 and c == 0xF0 and bs[i + 1] < 0x90:
            return False
        i += k
    return True


def utf8_encode(cp):
    """generic UTF-8 (surrogates allowed, up to 0x10FFFF)"""
    if cp <= 0x7F:
        return bytes([cp])
    if cp <= 0x7FF:
        return bytes([0xC0 | (cp >> 6), 0x80 | (cp & 0x3F)])
    if cp <= 0xFFFF:
        return bytes([0xE0 | (cp >> 12), 0x80 | ((cp >> 6) & 0x3F), 0x80 | (cp & 0x3F)])
    return bytes([0xF0 | (cp >> 18), 0x80 | ((cp >> 12) & 0x3F), 0x80 | ((cp >> 6) & 0x3F), 0x80 | (cp & 0x3F)])


# --------------------------------------------------------------------------
# position convention

class Writer:
    """Accumulates bytes and tracks the parser position convention:
    \\r, \\n and \\r\\n each end one line; the column is the number of bytes
    since the last line end (so the first byte of a line is column 1)."""

    def __init__(self):
        self.b = bytearray()
        self.line, self.col, self.prev = 1, 0, -1

    def put(self, bs):
        for c in bs:
            if c == 13:
                self.line += 1
                self.col = 0
            elif c == 10:
                self.col = 0
                if self.prev != 13:
                    self.line += 1
            else:
                self.col += 1
            self.prev = c
        self.b += bs

    def pos(self):
        return (self.line, self.col)


# --------------------------------------------------------------------------
# expected printer text (proto.janet c11/vprint)

def vnum(x):
    if x != x:
        return b"nan"
    if x == float("inf"):
        return b"inf"
    if x == float("-inf"):
        return b"-inf"
    if x == 0:
        return b"-0" if _struct.pack(">d", x)[0] & 0x80 else b"0"
    if x == int(x) and abs(x) < 1e15:
        return b"%d" % int(x)
    return ("%.17g" % x).encode()


def vraw(tag, bs):
    return tag + b"%d:" % len(bs) + bytes(bs)


def vkvs(open_, pairs, close):
    """pairs: list of (ktext, vtext)"""
    parts = [k + b" " + v for k, v in pairs]
    if len(parts) >= 2:
        parts.sort()
    return open_ + b" ".join(parts) + close


# --------------------------------------------------------------------------
# value trees
#
# node kinds (tuples):
#   ("atom", text, vtext, lead)     lead = number of bytes consumed when the
#                                    parser pushes the atom's state (1, or 2 for @"..")
#   ("tup", "(" | "[", children)
#   ("arr", "(" | "[", children)    @( ... ) / @[ ... ]
#   ("struct", [(k, v), ...])
#   ("table", [(k, v), ...])
#   ("rm", char, child)             reader macro

RM_NAMES = {b"'": b"quote", b",": b"unquote", b";": b"splice", b"|": b"short-fn", b"~": b"quasiquote"}
CLOSE = {b"(": b")", b"[": b"]", b"{": b"}"}


def atom(text, vtext, lead=1):
    return ("atom", bytes(text), bytes(vtext), lead)


def num(text, value):
    return atom(text, vnum(float(value)))


def sym(name):
    return atom(name, vraw(b"'", name))


def kw(name):
    return atom(b":" + name, vraw(b":", name))


def const(text):
    return atom(text, text)


def string_lit(text, content, buffer=False):
    if buffer:
        return atom(b"@" + text, vraw(b'@"', content), 2)
    return atom(text, vraw(b'"', content))


class Layout:
    """How the pieces of a form are glued together."""

    def __init__(self, name, sep, pad=b"", gap=b"", lead=b"", trail=b""):
        self.name, self.sep, self.pad, self.gap, self.lead, self.trail = name, sep, pad, gap, lead, trail


def first_byte(node):
    k = node[0]
    if k == "atom":
        return node[1][0]
    if k == "tup":
        return node[1][0]
    if k in ("arr", "table"):
        return ord("@")
    if k == "struct":
        return ord("{")
    if k == "rm":
        return node[1][0]
    raise ValueError(k)


def last_byte(node):
    k = node[0]
    if k == "atom":
        return node[1][-1]
    if k == "rm":
        return last_byte(node[2])
    return ord(")")


def ends_in_token(node):
    """does the text end with a token (needs a delimiter before a symbol char)"""
    k = node[0]
    if k == "atom":
        t = node[1]
        return t[-1] in SYMCHARS and t[0] not in b'"`' and not t.startswith(b'@"') and not t.startswith(b"@`")
    if k == "rm":
        return ends_in_token(node[2])
    return False


def _sep(lay, left, right):
    if lay.sep:
        return lay.sep
    if left is not None and ends_in_token(left) and first_byte(right) in SYMCHARS:
        return b" "
    if left is not None and last_byte(left) == 96 and first_byte(right) == 96:
        return b" "          # two long strings would merge their delimiters
    return b""


def emit(node, w, lay):
    """write node to w; returns (vtext, rootpos)"""
    k = node[0]
    if k == "atom":
        _, text, vtext, lead = node
        w.put(text[:lead])
        pos = w.pos()
        w.put(text[lead:])
        return vtext, pos
    if k in ("tup", "arr"):
        _, br, children = node
        if k == "arr":
            w.put(b"@")
        w.put(br)
        pos = w.pos()
        w.put(lay.pad)
        parts = []
        prev = None
        for c in children:
            w.put(_sep(lay, prev, c) if prev is not None else b"")
            parts.append(emit(c, w, lay)[0])
            prev = c
        w.put(lay.pad)
        w.put(CLOSE[br])
        if k == "tup":
            vt = br + b"%d:%d" % pos + b"".join(b" " + p for p in parts) + CLOSE[br]
        else:
            vt = b"@[" + b" ".join(parts) + b"]"
        return vt, pos
    if k in ("struct", "table"):
        _, pairs = node
        if k == "table":
            w.put(b"@")
        w.put(b"{")
        pos = w.pos()
        w.put(lay.pad)
        out = []
        prev = None
        for kk, vv in pairs:
            if prev is not None:
                w.put(_sep(lay, prev, kk))
            kt = emit(kk, w, lay)[0]
            w.put(_sep(lay, kk, vv))
            vt = emit(vv, w, lay)[0]
            out.append((kt, vt))
            prev = vv
        w.put(lay.pad)
        w.put(b"}")
        return vkvs(b"{" if k == "struct" else b"@{", out, b"}"), pos
    if k == "rm":
        _, ch, child = node
        w.put(ch)
        pos = w.pos()
        w.put(lay.gap)
        ct = emit(child, w, lay)[0]
        name = RM_NAMES[ch]
        return b"(%d:%d " % pos + vraw(b"'", name) + b" " + ct + b")", pos
    raise ValueError(k)


def render(nodes, lay):
    """top-level forms -> (text, expected event log of proto.janet)"""
    w = Writer()
    w.put(lay.lead)
    ev = []
    prev = None
    for n in nodes:
        if prev is not None:
            w.put(_sep(lay, prev, n))
        vt, pos = emit(n, w, lay)
        ev.append(b"V%d:%d " % pos + vt + b"\n")
        prev = n
    w.put(lay.trail)
    ev.append(b"W%d:%d dead" % w.pos())
    return bytes(w.b), b"".join(ev)


LAYOUTS = [
    Layout("tight", b""),
    Layout("space", b" "),
    Layout("lf", b"\n", pad=b"\n", gap=b"\n", lead=b"\n", trail=b"\n"),
    Layout("crlf", b"\r\n", pad=b"\r\n", gap=b"\r\n", lead=b"\r\n", trail=b"\r\n"),
    Layout("cr", b"\r", pad=b"\r", gap=b"\r", lead=b"\r", trail=b"\r"),
    Layout("lfcr", b"\n\r", pad=b" ", lead=b"\n\r", trail=b"\r\r\n\n"),
    Layout("tab-nul", b"\t\0", pad=b"\0", gap=b"\t", lead=b"\v\f", trail=b"\0"),
    Layout("comment", b" # c ) \" `\n", pad=b"#\n", gap=b"#x\r\n", lead=b"# first\r\n", trail=b" # no newline at the end"),
    Layout("comment-cr", b"#a\rb\n", pad=b" ", gap=b"", lead=b"#\r#\n", trail=b"#\r"),
    Layout("indent", b"\n   ", pad=b"  ", gap=b" ", lead=b"  ", trail=b"  \n"),
]


# --------------------------------------------------------------------------
# atoms: every token kind with the value it must read as

def number_atoms():
    out = []

    def add(text, value):
        out.append(num(text.encode(), value))

    for t, v in [("0", 0), ("1", 1), ("-1", -1), ("+1", 1), ("007", 7), ("-0", -0.0), ("1_000", 1000), ("1__0_", 10),
                 ("1.5", 1.5), ("-.5", -0.5), (".5", 0.5), ("5.", 5), ("+5.", 5), ("0.25", 0.25), ("00.125", 0.125),
                 ("1e3", 1000), ("1E3", 1000), ("1e+3", 1000), ("25e-2", 0.25), ("1.5e1", 15), ("1e0", 1), ("1e003", 1000),
                 ("0x10", 16), ("0xFF", 255), ("0xff", 255), ("-0x1", -1), ("+0xA", 10), ("0x1.8", 1.5), ("0x.8", 0.5),
                 ("0x1p4", 16), ("0x1P-1", 0.5), ("0x1_0", 16),
                 ("2r101", 5), ("2r1.1", 1.5), ("8r17", 15), ("16rff", 255), ("16rFF", 255), ("36rz", 35), ("36rZ", 35),
                 ("10r12", 12), ("02r11", 3), ("2r1&11", 8), ("16r1&2", 256), ("16r1&-1", 0.0625), ("36r1&1", 36),
                 ("1:n", 1), ("-1.5:n", -1.5), ("0x10:n", 16),
                 ("4294967296", 2 ** 32), ("9007199254740992", 2 ** 53), ("-9007199254740992", -2 ** 53),
                 ("1e15", 1e15), ("123456789012345", 123456789012345), ("0.5e1", 5),
                 ("1e308", 1e308), ("1e-308", 1e-308), ("1e999", float("inf")), ("-1e999", float("-inf")), ("1e-999", 0.0),
                 ("0.1", 0.1), ("3.14159", 3.14159), ("2.5e-3", 0.0025)]:
        add(t, v)
    # 64-bit integer suffixes (JANET_INT_TYPES): printed by c11/vprint as <type text>
    for t, ty, v in [("1:s", "s64", 1), ("-1:s", "s64", -1), ("0x10:s", "s64", 16), ("9223372036854775807:s", "s64", 2 ** 63 - 1),
                     ("-9223372036854775808:s", "s64", -2 ** 63), ("1:u", "u64", 1), ("18446744073709551615:u", "u64", 2 ** 64 - 1),
                     ("2r11:u", "u64", 3), ("1_0:s", "s64", 10)]:
        out.append(atom(t.encode(), ("<core/%s %d>" % (ty, v)).encode()))
    return out


def symbol_atoms():
    out = []
    # every single symbol character that is a symbol on its own
    for c in sorted(SYMCHARS):
        if c >= 128 or chr(c).isdigit() or c in b":@":
            continue
        out.append(sym(bytes([c])))
    for name in [b"a", b"ab", b"a1", b"a-b", b"a/b", b"a:b", b"a@b", b"-a", b"+a", b".a", b"-", b"+", b".", b"..", b"-.", b"--1", b"-1:u", b"-a1",
                 b"nil?", b"nill", b"ni", b"truee", b"fals", b"false?", b"x.y", b"*a*", b"<=>", b"a_b", b"_", b"e1", b"r2", b"x10", b"-e1",
                 b"+x", b"-0x", b"-1e", b"&", b"&opt", b"%", b"!", b"$0", b"a?", b"A", b"Z9", b"^",
                 "é".encode(), "a€".encode(), "\U0001F600".encode(), b"\xed\xa0\x80", b"\xf4\x90\x80\x80", b"\xc2\x80", b"\xdf\xbf", b"\xe0\xa0\x80", b"\xf0\x90\x80\x80"]:
        out.append(sym(name))
    return out


def keyword_atoms():
    out = [kw(b"")]
    for c in sorted(SYMCHARS):
        if c < 128:
            out.append(kw(bytes([c])))
    for name in [b"a", b"ab", b"1", b"12", b"-1", b"nil", b"true", b"a:b", b":", b"::", b"a@", b"@a", b"0x10", b"1e3",
                 "é".encode(), "k€".encode(), "\U0001F600".encode(), b"\xed\xa0\x80"]:
        out.append(kw(name))
    return out


NAMED_ESCAPES = {b"n": 10, b"t": 9, b"r": 13, b"0": 0, b"z": 0, b"f": 12, b"v": 11, b"a": 7, b"b": 8, b"'": 39, b"?": 63, b"e": 27, b'"': 34, b"\\": 92}


def string_atoms():
    """every escape form, every byte value; as string and as buffer"""
    out = []
    for buf in (False, True):
        def add(text, content):
            out.append(string_lit(text, content, buf))
        add(b'""', b"")
        # every byte: \xHH (both hex cases), and raw where a raw byte stands for itself
        for c in range(256):
            add(b'"\\x%02x"' % c, bytes([c]))
            if b"%02x" % c != b"%02X" % c:
                add(b'"\\x%02X"' % c, bytes([c]))
            if c not in (34, 92, 10, 13):
                add(b'"' + bytes([c]) + b'"', bytes([c]))
        for e, v in NAMED_ESCAPES.items():
            add(b'"\\' + e + b'"', bytes([v]))
            add(b'"a\\' + e + b'b"', b"a" + bytes([v]) + b"b")
            add(b'"\\' + e + b"\\" + e + b'"', bytes([v, v]))
        for cp in (0, 0x41, 0x7F, 0x80, 0x7FF, 0x800, 0xD7FF, 0xD800, 0xDFFF, 0xFFFF, 0xABCD, 0xabcd):
            add(b'"\\u%04X"' % cp, utf8_encode(cp))
            add(b'"\\u%04x"' % cp, utf8_encode(cp))
            add(b'"\\U%06X"' % cp, utf8_encode(cp))
        for cp in (0x10000, 0x10FFFF, 0x0FFFFF, 0x10abcd):
            add(b'"\\U%06X"' % cp, utf8_encode(cp))
            add(b'"x\\U%06x1"' % cp, b"x" + utf8_encode(cp) + b"1")
        add(b'"\\x411"', b"A1")
        add(b'"\\u00411"', b"A1")
        add(b'"\\01"', b"\x001")
        add(b'"a b  c"', b"a b  c")
        add(b'"(]{#@`\'~;,|"', b"(]{#@`'~;,|")
        add(b'"# not a comment"', b"# not a comment")
        add("\"é€\"".encode(), "é€".encode())
        add(b'"\xff\xfe\x80"', b"\xff\xfe\x80")
        # long strings at column 1 of their own line are not generated here (see longstring_cases)
        for ticks in (1, 2, 3):
            t = b"`" * ticks
            add(t + b"a" + t, b"a")
            add(t + b"a b\\n\"c" + t, b"a b\\n\"c")
            add(t + b"\\" + t, b"\\")
            if ticks > 1:
                add(t + b"a`b" + t, b"a`b")
                add(t + b"a" + b"`" * (ticks - 1) + b"b" + t, b"a" + b"`" * (ticks - 1) + b"b")
            add(t + b"\xff\x00\x01" + t, b"\xff\x00\x01")
            add(t + b"#(" + t, b"#(")
    return out


def longstring_cases():
    """(text, expected-event-log) for long strings whose value is known by
    construction. Returns complete top-level texts."""
    out = []
    contents = [b"a", b"a\nb", b"a\n\nb", b" a", b"a\n  b\n c", b"\na", b"a\n", b"\n", b"\n\n", b"", b"a\n\n", b" \n ", b"x`y", b"a\tb", b"a\n\tb"]
    for ticks in (1, 2, 3):
        t = b"`" * ticks
        for c in contents:
            if b"`" in c and ticks < 2:
                continue
            for buf in (False, True):
                at = b"@" if buf else b""
                tag = b'@"' if buf else b'"'
                # (a) the literal starts in column 1 (2 for buffers): wrapped in one newline each side, nothing is stripped
                #     -- only when indent_col = column - 1 is 0, i.e. for plain strings
                for indent in (0, 1, 3, 8):
                    lines = c.split(b"\n")
                    pre = b" " * indent
                    # the literal's first backtick is at column indent+1 (+1 for '@'); indentation to strip = that column - 1
                    k = indent + (1 if buf else 0)
                    body = b"\n".join((b" " * k + ln) for ln in lines)
                    for closing_indented in (False, True):
                        text = pre + at + t + b"\n" + body + b"\n" + (b" " * k if closing_indented else b"") + t
                        if closing_indented and k == 0:
                            continue
                        w = Writer()
                        w.put(pre + at + b"`")
                        pos = w.pos()
                        w.put(text[len(pre) + len(at) + 1:])
                        ev = b"V%d:%d " % pos + vraw(tag, c) + b"\nW%d:%d dead" % w.pos()
                        out.append((text, ev))
                # (a-crlf) Windows line ends, literal in column 1: one CRLF is removed at each end
                if not buf:
                    cc = c.replace(b"\n", b"\r\n")
                    text = t + b"\r\n" + cc + b"\r\n" + t
                    w = Writer()
                    w.put(b"`")
                    pos = w.pos()
                    w.put(text[1:])
                    out.append((text, b"V%d:%d " % pos + vraw(tag, cc) + b"\nW%d:%d dead" % w.pos()))
                # (c) a line that starts with a non-space inside the indentation zone disables stripping
                if b"\n" in c and not c.startswith(b"\n") and not c.endswith(b"\n") and all((ln[:1] not in (b" ", b"")) for ln in c.split(b"\n")[1:]):
                    pre = b"    "
                    text = pre + at + t + c + t
                    w = Writer()
                    w.put(pre + at + b"`")
                    pos = w.pos()
                    w.put(text[len(pre) + len(at) + 1:])
                    out.append((text, b"V%d:%d " % pos + vraw(tag, c) + b"\nW%d:%d dead" % w.pos()))
    return out


def const_atoms():
    return [const(b"nil"), const(b"true"), const(b"false")]


def all_atoms():
    return number_atoms() + symbol_atoms() + keyword_atoms() + string_atoms() + const_atoms()


def small_atoms():
    return [num(b"1", 1), sym(b"a"), kw(b"k"), string_lit(b'"s"', b"s"), const(b"nil"), string_lit(b'"b"', b"b", True),
            num(b"-2.5", -2.5), string_lit(b"`l`", b"l")]


def key_atoms():
    return [num(b"1", 1), sym(b"a"), kw(b"k"), string_lit(b'"s"', b"s")]


def containers_of(children_lists, pairs_lists):
    out = []
    for ch in children_lists:
        for br in (b"(", b"["):
            out.append(("tup", br, list(ch)))
            out.append(("arr", br, list(ch)))
    for ps in pairs_lists:
        out.append(("struct", list(ps)))
        out.append(("table", list(ps)))
    return out


def tree_universe(thorough):
    """list of top-level form lists"""
    sa = small_atoms()
    ka = key_atoms()
    va = [a for a in sa if a[1] != b"nil"]
    tops = []
    # single containers with 0..2 (quick) / 0..3 (thorough) children
    lists = [[]] + [[a] for a in sa] + [[a, b] for a in sa for b in sa]
    if thorough:
        lists += [[a, b, c] for a in sa[:5] for b in sa[:5] for c in sa[:5]]
    pairs = [[]] + [[(k, v)] for k in ka for v in va] + [[(k1, v1), (k2, v2)] for i, k1 in enumerate(ka) for k2 in ka[i + 1:] for v1 in va[:3] for v2 in va[:3]]
    level1 = containers_of(lists, pairs)
    for c in level1:
        tops.append([c])
    # reader macros on atoms and containers
    rms = []
    for ch in RM_NAMES:
        for a in sa:
            rms.append(("rm", ch, a))
        for c in containers_of([[], [sa[0]], [sa[1], sa[2]]], [[], [(ka[1], va[0])]]):
            rms.append(("rm", ch, c))
        for ch2 in RM_NAMES:
            rms.append(("rm", ch, ("rm", ch2, sa[1])))
    for r in rms:
        tops.append([r])
    # depth 2: a container inside every container position
    inner = containers_of([[], [sa[1]], [sa[0], sa[2]]], [[], [(ka[2], va[0])]]) + [("rm", b"'", sa[1]), ("rm", b"~", ("tup", b"(", [sa[0]]))]
    for i in inner:
        for br in (b"(", b"["):
            for k in ("tup", "arr"):
                tops.append([(k, br, [i])])
                tops.append([(k, br, [sa[0], i])])
                tops.append([(k, br, [i, sa[1]])])
                if thorough:
                    tops.append([(k, br, [i, i])])
        for k in ("struct", "table"):
            tops.append([(k, [(ka[2], i)])])
            tops.append([(k, [(i, va[0])])])
            tops.append([(k, [(ka[0], i), (ka[1], va[0])])])
    # depth 3 spine
    for i in inner:
        tops.append([("tup", b"(", [("arr", b"[", [("struct", [(ka[2], i)])])])])
        tops.append([("table", [(ka[0], ("tup", b"[", [("rm", b";", i)]))])])
    # several top-level forms
    for a in sa:
        for b in sa:
            tops.append([a, b])
    for c in level1[:40:3]:
        tops.append([sa[1], c, sa[0]])
        tops.append([c, c])
    return tops


# --------------------------------------------------------------------------
# negative by-construction cases: text -> (number of values, at least one error)

def negative_cases():
    out = []
    for t in [b'"\\q"', b'"\\xZ0"', b'"\\x0g"', b'"\\u12G4"', b'"\\U110000"', b'"\\UFFFFFF"', b'"\\ "', b'"\\\n"',
              b")", b"]", b"}", b"(]", b"[)", b"{)", b"@(]", b"@{]", b"{1}", b"@{1 2 3}", b"{a}", b"(", b"[", b"{", b"@(", b"@[", b"@{",
              b'"', b"`", b"``a`", b'@"', b"'", b"~", b"',;", b"1a", b"0x", b"1e", b"9r9", b"1:q", b"1.5:s",
              b"9223372036854775808:s", b"18446744073709551616:u", b"1__e", b"1:u:u", b"\x01", b"\x7f", b"\\", b"\x1f",
              b"\xff", b"a\xff", b":\xff", b"\xc0\x80", b"\xe0\x80\x80", b"\xf8\x88\x80\x80\x80", b"\xc3", b":\xe2\x82",
              b"(\x01)", b"[1a]", b"{:a \\}"]:
        out.append(t)
    return out


# --------------------------------------------------------------------------
# numbers for the print/parse round trip: structured families of doubles

def double_bits(x):
    return _struct.unpack(">Q", _struct.pack(">d", x))[0]


MANTISSAS = [0, 1, 2, 3, (1 << 52) - 1, (1 << 52) - 2, 1 << 51, (1 << 51) - 1, (1 << 51) + 1, 0x5555555555555, 0xAAAAAAAAAAAAA,
             0x123456789ABCD, 0xFEDCBA9876543, 0x0000000FFFFFF, 0xFFFFFF0000000, 0x8000000000001 & ((1 << 52) - 1), 0x3333333333333, 0x999999999999A]
