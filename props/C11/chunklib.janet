# C11 chunk/query/clone laws for one input string (core functions + proto.janet
# only, so that a replay file can embed proto.janet and this file and run on
# the plain `janet` binary). See driver_chunks.janet for the description.
#%IMPORTS
(import ./proto :prefix "")
#%END-IMPORTS

(def max-all (scan-number (or (os/getenv "C11_MAXALL") "10")))
(def poison "z\" 9)`")

(defn hex [s] (string/join (map |(string/format "%02x" $) s)))

(def- frame-keys [:type :line :column :buffer :args])

(defn obs
  "everything the pure queries report, as one string"
  [p]
  (def b @"")
  (def [l c] (parser/where p))
  (buffer/format b "%s %s %d:%d " (parser/status p) (if (parser/has-more p) "more" "empty") l c)
  (def st (parser/state p))
  (unless (= 2 (length st)) (buffer/push b "?state-keys"))
  (c11/vprint (in st :delimiters) b)
  (each f (in st :frames)
    (buffer/format b " {%s %d:%d" (in f :type) (in f :line) (in f :column))
    (var nk 3)
    (when-let [x (in f :buffer)] (++ nk) (buffer/push b " ") (c11/vprint x b))
    (when-let [x (in f :args)] (++ nk) (buffer/push b " ") (c11/vprint x b))
    (unless (= nk (length f)) (buffer/push b " ?frame-keys"))
    (buffer/push b "}"))
  # the two single-key forms must agree with the table form
  (unless (= (in st :delimiters) (parser/state p :delimiters)) (buffer/push b " ?delimiters-differ"))
  (unless (= (length (in st :frames)) (length (parser/state p :frames))) (buffer/push b " ?frames-differ"))
  (string b))

(defn pure-queries
  "every query that must not change the parser; returns nil or a complaint"
  [p]
  (def [l c] (parser/where p))
  (def st (parser/status p))
  (parser/has-more p)
  (parser/state p)
  (parser/state p :delimiters)
  (parser/state p :frames)
  (parser/clone p)
  (parser/where p l c)
  (def hm (parser/has-more p))
  (cond
    (and (not hm) (not= nil (parser/produce p))) "produce on an empty queue returned a value"
    (and (not hm) (not= nil (parser/produce p true))) "wrapped produce on an empty queue returned a value"
    (and (not= st :error) (not= nil (parser/error p))) "parser/error without an error returned a value"
    (do (when (and (= st :root) (not hm)) (parser/flush p)) nil)))

(var runs 0)

(defn fail [kind s detail]
  (error (string "DIFF\t" kind "\t" (hex s) "\t" (c11/esc detail @""))))

(defn check-chunks [s n ref]
  (if (<= n max-all)
    (do
      # all 2^(n-1) chunkings; mask bit j-1 set = cut before byte j
      (def sl (seq [i :range [0 n]] (seq [j :range [0 (+ n 1)]] (if (> j i) (string/slice s i j)))))
      (loop [mask :range [1 (blshift 1 (max 0 (- n 1)))]]
        (def p (parser/new))
        (def ev @"")
        (var start 0)
        (loop [j :range [1 n]]
          (when (not= 0 (band mask (blshift 1 (- j 1))))
            (c11/feed p (in (in sl start) j) ev)
            (set start j)))
        (c11/feed p (in (in sl start) n) ev)
        (c11/finish p ev)
        (++ runs)
        (when (not= (string ev) ref)
          (def cuts (seq [j :range [1 n] :when (not= 0 (band mask (blshift 1 (- j 1))))] j))
          (fail "chunk" s (string/format "cuts=%j whole=[%s] chunked=[%s]" cuts ref (string ev))))))
    (do
      (defn try-cuts [cuts]
        (++ runs)
        (def r (c11/chunked s cuts))
        (when (not= r ref)
          (fail "chunk" s (string/format "cuts=%j whole=[%s] chunked=[%s]" cuts ref r))))
      (try-cuts (range 1 n))
      (loop [a :range [1 n]] (try-cuts [a]))
      (when (<= n 64) (loop [a :range [1 n] b :range [(+ a 1) n]] (try-cuts [a b])))
      (each k [2 3 4 5 7] (try-cuts (range k n k))))))

(defn check-queries [s n ref]
  # byte-at-a-time, pure queries everywhere
  (def p (parser/new))
  (def ev @"")
  (def O @[])
  (def L @[])
  (loop [k :range [0 (+ n 1)]]
    (def o (obs p))
    (when-let [c (pure-queries p)] (fail "query" s (string "at " k ": " c)))
    (def o2 (obs p))
    (when (not= o o2)
      (fail "query" s (string "pure queries changed the parser at " k ": before=[" o "] after=[" o2 "]")))
    (array/push O o)
    (array/push L (length ev))
    (when (< k n) (c11/feed p (string/slice s k (+ k 1)) ev)))
  (c11/finish p ev)
  (++ runs)
  (when (not= (string ev) ref)
    (fail "query" s (string "whole=[" ref "] bytewise+queries=[" ev "]")))
  # the observation after k bytes is a function of those k bytes
  (loop [k :range [1 (+ n 1)]]
    (def p2 (parser/new))
    (def ev2 @"")
    (c11/feed p2 (string/slice s 0 k) ev2)
    (++ runs)
    (def o (obs p2))
    (when (not= o (in O k))
      (fail "prefix" s (string "after " k " bytes: bytewise=[" (in O k) "] one-chunk=[" o "]")))
    (when (not= (string ev2) (string/slice ev 0 (in L k)))
      (fail "prefix" s (string "events after " k " bytes: bytewise=[" (string/slice ev 0 (in L k)) "] one-chunk=[" ev2 "]")))))

(defn check-clone [s n ref]
  (loop [k :range [0 (+ n 1)]]
    (def pre (string/slice s 0 k))
    (def rest (string/slice s k))
    # c1/c2: drained clone point
    (def p (parser/new))
    (def evp @"")
    (loop [i :range [0 k]] (c11/feed p (string/slice s i (+ i 1)) evp))
    (def q1 (parser/clone p))
    (def q2 (parser/clone p))
    (def ev1 (buffer evp))
    (def ev2 (buffer evp))
    (c11/feed q1 rest ev1)
    (c11/finish q1 ev1)
    (c11/feed p poison evp)
    (c11/finish p evp)
    (c11/feed q2 rest ev2)
    (c11/finish q2 ev2)
    (+= runs 3)
    (when (not= (string ev1) ref)
      (fail "clone" s (string "clone after " k " bytes, remainder fed to the clone: whole=[" ref "] clone=[" ev1 "]")))
    (when (not= (string ev2) ref)
      (fail "clone" s (string "clone after " k " bytes, original continued first: whole=[" ref "] clone=[" ev2 "]")))
    (def pref (c11/whole (string pre poison)))
    (when (not= (string evp) pref)
      (fail "clone-orig" s (string "original after a clone at " k " was fed the poison suffix: expected=[" pref "] got=[" evp "]")))
    # c3: raw clone point (values not drained, error possibly latched)
    (def r (parser/new))
    (def i (parser/consume r pre))
    (def c (parser/clone r))
    (each [x nm] [[c "clone"] [r "original"]]
      (def ev @"")
      (c11/drain x ev)
      (c11/feed x (string/slice s i) ev)
      (c11/finish x ev)
      (++ runs)
      (when (not= (string ev) ref)
        (fail "clone-raw" s (string "undrained clone after consume of " k " bytes (" nm "): whole=[" ref "] got=[" ev "]"))))))

(defn check-api [s n ref]
  # 1. parser/byte instead of parser/consume
  (let [p (parser/new) ev @""]
    (each b s (parser/byte p b) (c11/drain p ev))
    (c11/finish p ev)
    (++ runs)
    (when (not= (string ev) ref)
      (fail "byte-api" s (string "whole=[" ref "] parser/byte=[" ev "]"))))
  # 2. the same bytes from a buffer, through the index argument only
  (let [p (parser/new) ev @"" b (buffer "xx" s)]
    (var i 2)
    (while (< i (+ n 2))
      (+= i (parser/consume p b i))
      (c11/drain p ev))
    (c11/finish p ev)
    (++ runs)
    (when (not= (string ev) ref)
      (fail "buffer-offset" s (string "whole=[" ref "] buffer+offset=[" ev "]"))))
  # 3. lazy draining: at most one value is taken per byte while more input arrives (the queue
  #    is only emptied before an error is taken, as the docstring of parser/error demands)
  (let [p (parser/new) ev @""]
    (loop [k :range [0 n]]
      (parser/byte p (in s k))
      (if (= :error (parser/status p))
        (c11/drain p ev)
        (when (parser/has-more p)
          (def tup (parser/produce p true))
          (if (and (tuple? tup) (= 1 (length tup)))
            (do
              (def [l c] (tuple/sourcemap tup))
              (buffer/format ev "V%d:%d " l c)
              (c11/vprint (in tup 0) ev))
            (buffer/push ev "V?:? not-a-wrapped-value"))
          (buffer/push ev "\n"))))
    (c11/finish p ev)
    (++ runs)
    (when (not= (string ev) ref)
      (fail "lazy-drain" s (string "whole=[" ref "] one-value-per-byte=[" ev "]")))))

# parser/produce without the `wrap` argument is a separate C function: it must deliver the same values as the
# wrapped form when taken at the same moments. Values are taken after each chunk only, so that finished values
# are queued while a later form is still open (every 1-cut; every 2-cut for n <= 10).
(defn- plain-run [s cuts wrapped]
  (def p (parser/new))
  (def out @"")
  (defn take []
    (while (parser/has-more p)
      (def v (if wrapped (let [t (parser/produce p true)] (if (and (tuple? t) (= 1 (length t))) (in t 0) [:not-wrapped t]))
               (parser/produce p)))
      (c11/vprint v out) (buffer/push out "\n"))
    (when (= :error (parser/status p)) (buffer/push out "E " (parser/error p) "\n")))
  (var start 0)
  (each c [;cuts (length s)]
    (def chunk (string/slice s start c))
    (var i 0)
    (while (< i (length chunk))
      (+= i (parser/consume p chunk i))
      (when (< i (length chunk)) (take)))      # consume stopped early: an error is latched
    (take)
    (set start c))
  (parser/eof p)
  (take)
  (buffer/push out (parser/status p))
  (string out))

(defn check-plain-produce [s n]
  (defn one [cuts]
    (+= runs 2)
    (def a (plain-run s cuts true))
    (def b (plain-run s cuts false))
    (when (not= a b)
      (fail "plain-produce" s (string/format "cuts=%j wrapped produce=[%s] plain produce=[%s]" cuts a b))))
  (one [])
  (loop [c :range [1 n]] (one [c]))
  (when (<= n max-all)
    (loop [c :range [1 n] d :range [(+ c 1) n]] (one [c d]))))

(def shapes @{})
(var nstr 0)

(defn check-string [s]
  (def n (length s))
  (def sh @"")
  (def ref (with-dyns [:c11-shape sh] (c11/whole s)))
  (++ runs)
  (++ nstr)
  (put shapes (string sh) true)
  (check-chunks s n ref)
  (check-queries s n ref)
  (check-api s n ref)
  (check-plain-produce s n)
  (check-clone s n ref))

