# C11 part C driver: parse a text whole with the canonical protocol and return
# the event log (escaped to one line). The expected log is computed by
# model.py from the value tree the text was generated from.
#   [:t "text"]
(use prelude)
(import ./proto :prefix "")

(batch-run
  (fn [item]
    (def s (in item 1))
    (def w (c11/whole s))
    # byte-at-a-time must agree (cheap; the full chunk law is driver_chunks)
    (def b (c11/chunked s (range 1 (length s))))
    (string (if (= w b) "=" "!") (c11/esc w @""))))
