# C11 part E driver: print with %j, parse back, compare with deep=.
# Law (property statement): if (string/format "%j" v) returns a text, that text
# parses to exactly one value that is deep= to v (and has v's type); otherwise
# it must raise. Positive expectation: values of the plain data universe
# (strings, buffers, finite numbers, nil/booleans, containers of those) print.
#   [:units ["u1" "u2" ...] n "prefix"]   all concatenations of n units after prefix -> as
#                                   string, buffer, symbol, keyword
#   [:nums elo ehi [mantissas...]]  doubles with exponent field in [elo,ehi)
#   [:val literal must-print]       the literal data itself
#   [:eval form must-print]         value = (eval form)
# Result: "ok\t<n>\t<printed>\t<refused>\t<strict-diffs>\t<class>=<hex example>:<count>;..."
(use prelude)

(defn hex [s] (string/join (map |(string/format "%02x" $) s)))

(var n 0)
(var printed 0)
(var refused 0)
(var strict 0)
(def classes @{})

(defn bad [cls example]
  (if-let [c (in classes cls)]
    (put c 1 (+ 1 (in c 1)))
    (put classes cls @[example 1])))

(defn check [v label must-print]
  (++ n)
  (def r (try (string/format "%j" v) ([e] nil)))
  # buffer/format appends the same text and keeps what was there
  (def b2 (try (buffer/format @"xy" "%j" v) ([e] nil)))
  (cond
    (and (nil? r) (nil? b2))
    (do (++ refused)
      (when must-print (bad (string (type v) ":refused-plain-data") label)))
    (or (nil? r) (nil? b2) (not= (string b2) (string "xy" r)))
    (bad (string (type v) ":string-format-and-buffer-format-disagree") label)
    (do
      (++ printed)
      (def p (parser/new))
      (parser/consume p r)
      (def vals @[])
      (var perr nil)
      (if (= :error (parser/status p))
        (set perr (parser/error p))
        (do
          (parser/eof p)
          (while (parser/has-more p) (array/push vals (parser/produce p)))
          (when (= :error (parser/status p)) (set perr (parser/error p)))))
      (def t (type v))
      (cond
        perr (bad (string t ":printed-text-does-not-parse") label)
        (= 0 (length vals)) (bad (string t ":printed-text-has-no-value") label)
        (> (length vals) 1) (bad (string t ":printed-text-has-several-values") label)
        (not= (type (vals 0)) t) (bad (string t ":reads-back-as-" (type (vals 0))) label)
        (not (deep= (vals 0) v)) (bad (string t ":reads-back-not-deep-equal") label)
        (when (not= (canon (vals 0)) (canon v)) (++ strict))))))

(defn units [us k prefix]
  (def m (length us))
  (def idx (array/new-filled k 0))
  (var going true)
  (while going
    (def s (string prefix ;(map |(in us $) idx)))
    (def h (hex s))
    (check s h true)
    (check (buffer s) h true)
    (check (symbol s) h false)
    (check (keyword s) h false)
    (var i (- k 1))
    (while (and (>= i 0) (= (in idx i) (- m 1))) (put idx i 0) (-- i))
    (if (< i 0) (set going false) (put idx i (+ 1 (in idx i))))))

(defn nums [elo ehi mants]
  (loop [e :range [elo ehi] m :in mants sign :in [0 1]]
    (def hi (+ (* sign 0x80000000) (* e 0x100000) (div m 0x100000000)))
    (def lo (% m 0x100000000))
    (def x (verif/bits-to-double hi lo))
    (def finite (and (= x x) (not= x math/inf) (not= x (- math/inf))))
    (check x (string/format "%08x%08x" hi lo) finite)
    # a number inside a container goes through the same printer
    (when finite (check [x] (string/format "[%08x%08x]" hi lo) true))))

(batch-run
  (fn [item]
    (set n 0) (set printed 0) (set refused 0) (set strict 0)
    (each k (keys classes) (put classes k nil))
    (case (in item 0)
      :units (units (in item 1) (in item 2) (in item 3))
      :nums (nums (in item 1) (in item 2) (in item 3))
      :val (check (in item 1) (hex (string/format "%.60q" (in item 1))) (in item 2))
      :eval (check (eval (in item 1)) (hex (string/format "%.60q" (in item 1))) (in item 2))
      (error "bad item"))
    (string "ok\t" n "\t" printed "\t" refused "\t" strict "\t"
            (string/join (seq [k :in (sort (keys classes))] (string k "=" (get-in classes [k 0]) ":" (get-in classes [k 1]))) ";"))))
