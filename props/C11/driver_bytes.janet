# C11 part D driver: every byte value. Run under ASan ("never a crash") and
# compared whole vs byte-at-a-time vs clone-in-the-middle.
#   [:bytes "context" nfree lo hi]  context + every byte string of length nfree
#                                   whose first byte is in [lo,hi) (other bytes 0..255)
#   [:bytes2 "context" nfree "alphabet" lo hi]   same, bytes from the alphabet, first index in [lo,hi)
#   [:utf8 "pre" "alphabet" nfree "post"]  token = pre + bytes + post for every byte string of
#                                   length nfree over the alphabet: returns one char per
#                                   token: S symbol / K keyword with exactly those bytes, E error, ? other
(use prelude)
(import ./proto :prefix "")

(defn hex [s] (string/join (map |(string/format "%02x" $) s)))

(def shapes @{})
(var count 0)

(defn one [s]
  (++ count)
  (def sh @"")
  (def w (with-dyns [:c11-shape sh] (c11/whole s)))
  (put shapes (string sh) true)
  (def n (length s))
  (def b (c11/chunked s (range 1 n)))
  (when (not= w b)
    (error (string "DIFF\tchunk\t" (hex s) "\t" (c11/esc (string "whole=[" w "] bytewise=[" b "]") @""))))
  # clone in the middle, continue on the clone; then the original
  (def k (div n 2))
  (def p (parser/new))
  (def ev @"")
  (c11/feed p (string/slice s 0 k) ev)
  (parser/state p)
  (def q (parser/clone p))
  (def ev2 (buffer ev))
  (c11/feed q (string/slice s k) ev2)
  (c11/finish q ev2)
  (c11/feed p (string/slice s k) ev)
  (c11/finish p ev)
  (when (or (not= (string ev2) w) (not= (string ev) w))
    (error (string "DIFF\tclone\t" (hex s) "\t" (c11/esc (string "whole=[" w "] clone=[" ev2 "] original=[" ev "]") @"")))))

(defn enum-bytes [ctx nfree alpha lo hi]
  (def k (length alpha))
  (def base (length ctx))
  (def buf (buffer ctx (string/repeat "\0" nfree)))
  (defn rec [i]
    (if (= i nfree)
      (one (string buf))
      (loop [j :range [(if (= i 0) lo 0) (if (= i 0) hi k)]]
        (put buf (+ base i) (in alpha j))
        (rec (+ i 1)))))
  (rec 0))

(def all-bytes (string/from-bytes ;(range 256)))

(defn utf8 [pre alpha nfree post]
  (def out @"")
  (def k (length alpha))
  (def base (length pre))
  (def buf (buffer pre (string/repeat "\0" nfree) post))
  (def iskw (and (> (length pre) 0) (= (in pre 0) (chr ":"))))
  (defn rec [i]
    (if (= i nfree)
      (do
        (def s (string buf))
        (def p (parser/new))
        (parser/consume p s)
        (var err false)
        (when (= :error (parser/status p)) (parser/error p) (set err true))
        (unless err
          (parser/eof p)
          (when (= :error (parser/status p)) (parser/error p) (set err true)))
        (def vals @[])
        (while (parser/has-more p) (array/push vals (parser/produce p)))
        (buffer/push out
                     (cond
                       (and err (empty? vals)) "E"
                       err "?"
                       (not= 1 (length vals)) "?"
                       (and iskw (keyword? (vals 0)) (= (string (vals 0)) (string/slice s 1))) "K"
                       (and (not iskw) (symbol? (vals 0)) (= (string (vals 0)) s)) "S"
                       "?")))
      (loop [j :range [0 k]]
        (put buf (+ base i) (in alpha j))
        (rec (+ i 1)))))
  (rec 0)
  (string out))

(batch-run
  (fn [item]
    (set count 0)
    (each k (keys shapes) (put shapes k nil))
    (def r (try
             (case (in item 0)
               :bytes (do (enum-bytes (in item 1) (in item 2) all-bytes (in item 3) (in item 4)) nil)
               :bytes2 (do (enum-bytes (in item 1) (in item 2) (in item 3) (in item 4) (in item 5)) nil)
               :utf8 (string "utf8\t" (utf8 (in item 1) (in item 2) (in item 3) (in item 4)))
               (error "bad item"))
             ([e] (if (and (bytes? e) (string/has-prefix? "DIFF\t" e)) (string e) (error e)))))
    (or r (string "ok\t" count "\t" (string/join (map hex (sort (keys shapes))) ",")))))
