# C11 part F: invariants over operation histories on one parser object (core functions +
# proto.janet only; replay files embed this text). See driver_ops.janet.
#%IMPORTS
(import ./proto :prefix "")
#%END-IMPORTS

(def asan-mode (os/getenv "C11_OPS_ASAN"))
(def tail " b) \"c\" (d")

(defn obs [p]
  (def b @"")
  (def [l c] (parser/where p))
  (buffer/format b "%s %s %d:%d" (parser/status p) (if (parser/has-more p) "more" "empty") l c)
  (string b))

(defn frames-text [p]
  (def b @"")
  (c11/vprint (parser/state p :delimiters) b)
  (each f (parser/state p :frames)
    (buffer/format b " {%s %d:%d" (in f :type) (in f :line) (in f :column))
    (when-let [x (in f :buffer)] (buffer/push b " ") (c11/vprint x b))
    (when-let [x (in f :args)] (buffer/format b " args=%d" (length x)))
    (buffer/push b "}"))
  (string b))

(defn fail [law hist detail]
  (error (string "BAD\t" law "\t" hist "\t" (c11/esc detail @""))))

(var nops 0)
(var nhist 0)
(def outcomes @{})

(defn run-history [ops]
  (var p (parser/new))
  (var tainted false)
  (var i 0)
  (def n (length ops))
  (++ nhist)
  (while (< i n)
    (def op (in ops i))
    (def hist (string/slice ops 0 (+ i 1)))
    (def st (parser/status p))
    (def hm (parser/has-more p))
    (var flushed false)
    (++ nops)
    (case op
      (chr "p") (let [v (parser/produce p)]
                  (when (and (not hm) (not= nil v)) (fail "I1-produce-on-empty" hist "produce returned a value although has-more was false")))
      (chr "e") (let [m (parser/error p)]
                  (if (= st :error)
                    (do
                      (unless (string? m) (fail "I3-error-message" hist "status was :error but parser/error returned no message"))
                      (when (= :error (parser/status p)) (fail "I3-error-latch" hist "status still :error after parser/error"))
                      (when hm (set tainted true))
                      (set flushed true))
                    (unless (nil? m) (fail "I3-error-without-error" hist (string "parser/error returned " m " although status was " st)))))
      (chr "f") (do (parser/flush p) (when hm (set tainted true)) (set flushed true))
      (chr "s") (unless (and asan-mode tainted) (parser/state p))
      (chr "z") (let [r (try (do (parser/eof p) :ok) ([e] :raised))]
                  (when (and (or (= st :error) (= st :dead)) (= r :ok)) (fail "I3-eof-on-dead" hist (string "parser/eof accepted in status " st)))
                  (when (and (not= st :error) (not= st :dead) (= r :raised)) (fail "I3-eof-raised" hist "parser/eof raised on a live parser")))
      (chr "c") (set p (parser/clone p))
      # a byte
      (let [o1 (obs p)
            r (try (do (parser/consume p (string/from-bytes op)) :ok) ([e] :raised))]
        (if (or (= st :error) (= st :dead))
          (do
            (when (= r :ok) (fail "I3-consume-on-latched" hist (string "consume accepted in status " st)))
            (when (not= o1 (obs p)) (fail "I3-consume-on-latched" hist "a refused consume changed the parser")))
          (when (= r :raised) (fail "I3-consume-raised" hist "consume raised on a live parser")))))
    # --- invariants
    (def st2 (parser/status p))
    (def hm2 (parser/has-more p))
    (put outcomes (string st2 (if hm2 "+" "-") (if flushed "F" "")) true)
    (unless (and asan-mode tainted)
      # I1: the root frame lists exactly what produce will deliver
      (def fr (parser/state p :frames))
      (def rootargs (in (in fr 0) :args))
      (def q (parser/clone p))
      (var cnt 0)
      (def b1 @"")
      (while (parser/has-more q)
        (c11/vprint (parser/produce q true) b1) (buffer/push b1 " ")
        (++ cnt)
        (when (> cnt 1000) (fail "I1-queue" hist "has-more never becomes false")))
      (when (not= cnt (length rootargs))
        (fail "I1-queue" hist (string "root frame reports " (length rootargs) " queued values, produce delivers " cnt "; frames: " (frames-text p))))
      (def b2 @"")
      (each a rootargs (c11/vprint a b2) (buffer/push b2 " "))
      (when (not= (string b1) (string b2))
        (fail "I1-queue" hist (string "root frame args [" b2 "] but produce delivers [" b1 "]")))
      (when (not= hm2 (> cnt 0)) (fail "I1-queue" hist "has-more disagrees with the queue"))
      # I2
      (when flushed
        (when (or hm2 (not= 1 (length fr)) (not= "" (parser/state p :delimiters)))
          (fail "I2-flush" hist (string "after flush: " (obs p) " frames: " (frames-text p))))))
    # I4
    (when (and flushed (not= st2 :error) (not= st2 :dead))
      (def a (parser/clone p))
      (def [l c] (parser/where p))
      (def fresh (parser/new))
      (parser/where fresh l c)
      (def ea @"") (def ef @"")
      (c11/feed a tail ea) (c11/finish a ea)
      (c11/feed fresh tail ef) (c11/finish fresh ef)
      (when (not= (string ea) (string ef))
        (fail "I4-restart" hist (string "after flush at " l ":" c " flushed=[" ea "] fresh=[" ef "]"))))
    (++ i)))

