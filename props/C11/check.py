#!/usr/bin/env python3
"""C11 -- parser output depends only on the bytes; data prints and parses back.

Parts (each exhaustive over a stated finite space, all on the real interpreter):
  A  enum      every string <= n over small alphabets: every chunking, pure queries at every
               position, observation-after-prefix law, clone at every position (driver_chunks)
  B  templates longer texts (hand written + every by-construction text): same laws
  C  values    texts generated FROM value trees: expected values, tuple source positions and
               final position known by construction (model.py) -- independent oracle
  D  bytes     every byte value: short strings over all 256 bytes, under ASan ("never a crash"),
               whole == bytewise == clone; UTF-8 validity of symbols/keywords vs model
  E  jdn       %j print -> parse -> deep= for a bounded universe of values; unprintable values
               must raise
  F  ops       every history of <= d operations (consume byte, produce, error, flush, state, eof,
               clone) on one parser: queue/flush/latch/restart invariants, fast and ASan builds
"""
import os
import re
import sys
import itertools

sys.path.insert(0, os.path.join(os.path.dirname(os.path.abspath(__file__)), "..", "..", "engine", "mc"))
from core import *  # noqa: F401,F403

HERE = os.path.dirname(os.path.abspath(__file__))
sys.path.insert(0, HERE)
import model as M  # noqa: E402

D_CHUNKS = os.path.join(HERE, "driver_chunks.janet")
D_VALUES = os.path.join(HERE, "driver_values.janet")
D_BYTES = os.path.join(HERE, "driver_bytes.janet")
D_JDN = os.path.join(HERE, "driver_jdn.janet")

A21 = b'()[]{}"`a1:#\\@\';~, \n\r'          # the design's alphabet
A14 = b'(){}"`a1\\@\'#\n\r'
FAMILIES_QUICK = [
    ("design-21", A21, 4),
    ("core-14", A14, 5),
]
FAMILIES_THOROUGH = [
    ("design-21", A21, 5),
    ("escape-6", b'"\\xu4G', 7),
    ("lines-6", b"a(\r\n#\"", 7),
    ("longstring-5", b"`a \n\r", 8),
    ("containers-8", b"()[a1' \n", 7),
    ("strings-8", b'"`\\ax4\n@', 7),
    ("core-14", A14, 6),
]


def esc(bs):
    """same as proto.janet c11/esc"""
    out = []
    for c in bs:
        if c == 34:
            out.append('\\"')
        elif c == 92:
            out.append("\\\\")
        elif 32 <= c < 127:
            out.append(chr(c))
        else:
            out.append("\\x%02x" % c)
    return "".join(out)


def jstr(bs):
    return '"' + esc(bs) + '"'


def strip_imports(text):
    out, skip = [], False
    for line in text.split("\n"):
        if line.startswith("#%IMPORTS"):
            skip = True
            continue
        if line.startswith("#%END-IMPORTS"):
            skip = False
            continue
        if not skip:
            out.append(line)
    return "\n".join(out)


def read(name):
    with open(os.path.join(HERE, name)) as f:
        return f.read()


def replay_chunklaw(s):
    """stand-alone script: runs every chunk/query/clone law on s"""
    return (read("proto.janet") + "\n" + strip_imports(read("chunklib.janet")) + "\n"
            + "(def s %s)\n" % jstr(s)
            + "(print \"whole: \" (c11/esc (c11/whole s) @\"\"))\n"
            + "(try (do (check-string s) (print \"all laws hold for this input\"))\n"
            + "  ([e] (print \"LAW BROKEN: \" e) (os/exit 1)))\n")


def replay_expect(s, expected, got):
    return (read("proto.janet") + "\n(def s %s)\n(def expected %s)\n" % (jstr(s), jstr(expected))
            + "# observed by the check: %s\n" % esc(got)
            + "(def got (c11/whole s))\n(print \"expected: \" (c11/esc expected @\"\"))\n(print \"got:      \" (c11/esc got @\"\"))\n"
            + "(when (not= got expected) (print \"MISMATCH\") (os/exit 1))\n")


# ------------------------------------------------------------------------------------------------
# part A / B

def chunk_items_for_family(alpha, n):
    """items covering all strings of length exactly n"""
    if n <= 2 or len(alpha) ** n <= 4000:
        return [jdn([Kw("enum"), alpha, n, b""])]
    plen = 1
    while len(alpha) ** plen < 200 and plen < n - 1:
        plen += 1
    if len(alpha) ** n > 3_000_000:
        plen = min(plen + 1, n - 1)
    return [jdn([Kw("enum"), alpha, n, bytes(p)]) for p in itertools.product(alpha, repeat=plen)]


def run_chunk_items(chk, part, items, labels=None, chunk=4, max_report=3, env=None):
    res = run_batch("fast", D_CHUNKS, items, chunk=chunk, timeout=600, env=env)
    nstr = runs = 0
    shapes = set()
    reported = 0
    ndiff = 0
    for idx, (it, (st, text)) in enumerate(zip(items, res)):
        if st == "OK" and text.startswith("ok\t"):
            f = text.split("\t")
            nstr += int(f[1])
            runs += int(f[2])
            shapes.update(x for x in f[3].split(","))
            continue
        if st == "OK" and text.startswith("DIFF\t"):
            ndiff += 1
            _, kind, hx, detail = text.split("\t", 3)
            s = bytes.fromhex(hx)
            if reported < max_report:
                reported += 1
                chk.violation(sig="%s:%s:%s" % (part, kind, hx or "empty"),
                              what="input %s: %s" % (jstr(s), detail.replace("\\x0a", " | ")),
                              replay_text=replay_chunklaw(s), replay_cmd="janet <this file>")
            else:
                chk.violations += 1
            continue
        if st in ("CRASH", "TIMEOUT"):
            ndiff += 1
            chk.violation(sig="%s:%s:%s" % (part, st.lower(), re.sub(r"\s+", "_", it)[:60]),
                          what="interpreter %s while running the chunk laws on item %s: %s" % (st, it, text[-600:]),
                          replay_text=read("proto.janet") + "\n" + strip_imports(read("chunklib.janet"))
                          + "\n# item: %s -- run check-string on every string of the family\n" % it,
                          replay_cmd="janet <this file>")
            continue
        raise HarnessError("driver_chunks item %s: %s %s" % (it, st, text[:500]))
    for sh in shapes:
        chk.outcome(part[0] + ":" + sh)
    chk.add(evaluations=runs, transitions=runs, states=nstr)
    chk.part(part, strings=nstr, parser_runs=runs, distinct_event_shapes=len(shapes))
    return nstr, runs, ndiff


ENUM_DONE = []      # (name, alphabet set, max length completed)
SPEED = [0.0]       # measured work units / second (only used to stop BETWEEN bounds in time)


def enum_work(k, n):
    """rough cost of one length: strings x parser runs per string x bytes per run"""
    return (k ** n) * (2 ** max(n - 1, 0) + 6 * n + 12) * (n + 4)


def part_enum(chk, fams):
    """families in order; a family whose next length does not fit the remaining time is capped at
    the last completed length and the next (cheaper) family is tried"""
    for name, alpha, maxlen in fams:
        done = [(a, m) for _, a, m in ENUM_DONE]
        completed = -1
        for n in range(0, maxlen + 1):
            if any(set(alpha) <= a2 and n <= m2 for a2, m2 in done):
                completed = n
                continue      # already covered by a superset alphabet
            work = enum_work(len(alpha), n)
            predicted = work / SPEED[0] if SPEED[0] else 0.0
            if chk.out_of_time(0.80) or chk.elapsed() + predicted > chk.budget * 0.92:
                chk.cap("enum %s: stopped before length %d (of %d)%s" % (
                    name, n, maxlen, "" if chk.out_of_time(0.80) else " -- predicted %.0f s would exceed the budget" % predicted))
                break
            items = chunk_items_for_family(alpha, n)
            t0 = chk.elapsed()
            nstr, runs, nviol = run_chunk_items(chk, "enum:%s" % name, items)
            dt = chk.elapsed() - t0
            if dt > 2.0:
                SPEED[0] = work / dt     # work units per second at the current machine load
            chk.part("enum:%s" % name, **{"len%d_strings" % n: nstr})
            if nviol == 0 and nstr != len(alpha) ** n:
                raise HarnessError("enum %s len %d: %d strings, expected %d" % (name, n, nstr, len(alpha) ** n))
            completed = n
        ENUM_DONE.append((name, set(alpha), completed))
        chk.part("enum:%s" % name, alphabet=esc(alpha), bound_completed="all strings of length <= %d" % completed)
    chk.cov["bound_completed"] = "; ".join(("%s: all strings <= %d" % (n, m)) if m >= 0 else ("%s: not run" % n) for n, _, m in ENUM_DONE)


TEMPLATES = [
    b"(defn f [x] (+ x 1)) # inc\n(f 2)",
    b"{:a 1 :b [1 2 3] :c @{\"k\" @[nil true false]}}",
    b"'(a ,b ;c ~d |(+ $ 1))",
    b"\"esc \\n\\t\\r\\0\\z\\f\\v\\a\\b\\'\\?\\e\\\"\\\\ \\x41\\u00e9\\U01F600\"",
    b"``long\n  string `with` ticks``  `x`",
    b"  ```\n  indented\n    more\n  ```",
    b"\t@``\n\t buffer\r\n\t ``",
    b"(\r\n a\r b\n c\n\r d)",
    b"# only a comment",
    b"#c1\r\n#c2\n1",
    b"1 2.5 -3e4 0x1F 2r101 1_000 :kw sym nil true false",
    b"1:s 2:u 3:n -4:s",
    b"(a (b (c (d (e (f (g))))))) ",
    b"[[[[[[[[[[1]]]]]]]]]]",
    b"@[@[@{@() @[]}]]",
    b"((((((((((",
    b"))))))))))",
    b"(]  [}  {)  @(]",
    b"{1 2 3}",
    b"\"unterminated",
    b"`unterminated",
    b"``a` still`` `",
    b"\"bad \\q escape\" 1",
    b"\"bad \\xZZ\" 2",
    b"\"bad \\u12\" 3",
    b"\"\\U110000\" 4",
    b"1a 2b 3c",
    b"a\xffb :\xc3 \xc3\xa9 \xe2\x82\xac",
    b"\xc0\x80 \xed\xa0\x80 \xf4\x90\x80\x80 \xf8",
    b"\x01\x02 a \x7f",
    b"@ a @1 @:k @\"b\" @`c` @x[",
    b"''''a ,,;;~~b",
    b"' # comment\n a",
    b"(a # comment )\n b)",
    b"\"multi\nline\r\nstring\"",
    b"(\"a\"\"b\"`c``d`)",
    b"a\0b\0(c\0)",
    b"\r\r\n\n\r\n\r(",
    b"(a\r\n",
    b"\"x\r",
    b"`a\r\n b\r\n`",
    b"  `\n  a\r\n  b\n  `",
    b"{:a}",
    b"@{1}",
    b"(a) ] (b)",
    b"\\ a",
    b"|(+ $ $1) ||x",
    b"-  +  .  -.  +.  -a  1e  1e+  0x  1r1",
    b"1__2 _1 1_ 1._5 1e_5",
    b"nil? true? falsey ni tru fals nilx",
    b":: :a:b ::: :",
    b"\"a\"b",
    b"a\"b\"",
    b"a`b`c",
    b"(def \xce\xbb 1)",
    b"```a``b`c```",
    b"`a``",
    b"``a```",
    b"@",
    b"@@",
    b"@ [",
    b"~@[1]",
    b"#\r1\n2",
    b"\"\\",
    b"\"\\x",
    b"\"\\x4",
    b"\"\\u004",
    b"\"\\U00004",
    # growth of the state / argument / byte stacks (realloc paths, clone with capacity = count)
    b"(" * 150 + b"x" + b")" * 150,
    b"[" * 70 + b"{" * 3,
    b'"' + b"ab\\n" * 80 + b'"',
    b"a" * 300,
    b":" + b"k" * 257,
    b" ".join(b"v%d" % i for i in range(60)),
    b"```" + b"line\n  " * 40 + b"```",
    b"@[" + b"1 " * 100 + b"]",
    b"{" + b" ".join(b":k%d %d" % (i, i) for i in range(40)) + b"}",
    b"'" * 64 + b"q",
    b"# " + b"c" * 200 + b"\n1",
]


def value_texts(chk):
    """(text, expected-event-log, what) for part C; deterministic order"""
    out = []
    seen = set()

    def add(nodes, lay, what):
        text, ev = M.render(nodes, lay)
        if text in seen:
            return
        seen.add(text)
        out.append((text, ev, what))

    atoms = M.all_atoms()
    sa = M.small_atoms()
    for a in atoms:
        for lay in M.LAYOUTS:
            add([a], lay, "atom/" + lay.name)
        # in context: inside each container kind, as a struct value, behind a reader macro, between atoms
        for lay in (M.LAYOUTS[0], M.LAYOUTS[1], M.LAYOUTS[3], M.LAYOUTS[7]):
            add([("tup", b"(", [a])], lay, "in-tuple/" + lay.name)
            add([("arr", b"[", [sa[1], a, sa[0]])], lay, "in-array/" + lay.name)
            add([("struct", [(M.key_atoms()[2], a)])], lay, "struct-value/" + lay.name) if a[1] != b"nil" else None
            add([("rm", b"'", a)], lay, "quoted/" + lay.name)
            add([sa[1], a, sa[2]], lay, "between/" + lay.name)
    for nodes in M.tree_universe(not chk.quick):
        for lay in M.LAYOUTS:
            add(nodes, lay, "tree/" + lay.name)
    for text, ev in M.longstring_cases():
        if text not in seen:
            seen.add(text)
            out.append((text, ev, "longstring"))
    return out


def part_values(chk, texts):
    items = [jdn([Kw("t"), t]) for t, _, _ in texts]
    res = run_batch("fast", D_VALUES, items, chunk=2500, timeout=300)
    bad = 0
    kinds = {}
    for (text, ev, what), (st, got) in zip(texts, res):
        chk.add(evaluations=1, transitions=2)
        if st != "OK":
            if st in ("CRASH", "TIMEOUT"):
                chk.violation(sig="values:%s:%s" % (st.lower(), text.hex()[:60]), what="%s parsing %s" % (st, jstr(text)),
                              replay_text=replay_expect(text, ev, b""), replay_cmd="janet <this file>")
                continue
            raise HarnessError("driver_values %s: %s %s" % (jstr(text), st, got[:300]))
        kinds[what.split("/")[0]] = kinds.get(what.split("/")[0], 0) + 1
        same, got = got[0], got[1:]
        chk.outcome("C:" + re.sub(r"[0-9]+", "", got)[:80])
        exp = esc(ev)
        if got != exp or same != "=":
            bad += 1
            if bad <= 3:
                why = "bytewise feeding differs from whole" if same != "=" else "value/position differs from the tree the text was generated from"
                chk.violation(sig="values:%s:%s" % (what, text.hex()[:80]),
                              what="%s: text %s expected [%s] got [%s]" % (why, jstr(text), exp.replace("\\x0a", " | "), got.replace("\\x0a", " | ")),
                              replay_text=replay_expect(text, ev, got.encode()), replay_cmd="janet <this file>")
            else:
                chk.violations += 1
    chk.part("values", texts=len(texts), mismatches=bad, **{"kind_" + k: v for k, v in kinds.items()})
    # negative cases: an error must be reported (and never a crash)
    neg = M.negative_cases()
    res = run_batch("fast", D_VALUES, [jdn([Kw("t"), t]) for t in neg], chunk=500)
    nbad = 0
    for t, (st, got) in zip(neg, res):
        chk.add(evaluations=1)
        if st != "OK":
            raise HarnessError("driver_values negative %s: %s %s" % (jstr(t), st, got[:300]))
        if got[0] != "=":
            why, sig = "byte-wise feeding differs from whole feeding", "values:invalid-text-chunking:%s" % t.hex()
        elif "\\x0aE" not in ("\\x0a" + got[1:]):
            why, sig = "invalid text produced no parse error", "values:invalid-accepted:%s" % t.hex()
        else:
            continue
        nbad += 1
        if nbad <= 3:
            chk.violation(sig=sig, what="%s: %s -> [%s]" % (why, jstr(t), got[1:].replace("\\x0a", " | ")),
                          replay_text=replay_chunklaw(t), replay_cmd="janet <this file>")
        else:
            chk.violations += 1
    chk.part("values", negative_texts=len(neg))


def part_templates(chk, texts):
    strs = list(TEMPLATES)
    strs += M.negative_cases()
    stride = 6 if chk.quick else 1
    if chk.quick and chk.out_of_time(0.5):
        chk.cap("templates: only every %d-th by-construction text (machine too slow)" % (stride * 8))
        stride *= 8
    strs += [t for i, (t, _, _) in enumerate(texts) if i % stride == 0]
    seen = set()
    uniq = []
    for s in strs:
        if s not in seen:
            seen.add(s)
            uniq.append(s)
    # cheap first; long ones cost O(n^2) runs
    long_ = [s for s in uniq if len(s) > 64]
    short = [s for s in uniq if len(s) <= 64]
    nstr, runs, nsh = run_chunk_items(chk, "templates", [jdn([Kw("str"), s]) for s in long_], chunk=1)
    nstr, runs, nsh = run_chunk_items(chk, "templates", [jdn([Kw("str"), s]) for s in short], chunk=60)
    chk.part("templates", hand_written=len(TEMPLATES), from_value_trees=len(uniq) - len(TEMPLATES), stride=stride,
             max_len=max(len(s) for s in uniq))


# ------------------------------------------------------------------------------------------------
# part D

CONTEXTS = [b"", b'"', b"`", b"``", b"@", b"(", b"{:a ", b'"\\', b'"\\x', b'"\\u00', b"#", b"a", b":", b"1", b"'", b'@"', b"(a ", b"`a`"]
SUB48 = bytes(sorted(set(b'()[]{}"`a1:#\\@\';~,| \n\r\t\0\v\f-+.ex_&rnuUzZ9G/') | {0x01, 0x7f, 0x80, 0xbf, 0xc2, 0xe0, 0xed, 0xf0, 0xf4, 0xff}))


def run_bytes_items(chk, variant, part, items, chunk):
    res = run_batch(variant, D_BYTES, items, chunk=chunk, timeout=900)
    total = 0
    reported = 0
    shapes = set()
    for it, (st, text) in zip(items, res):
        if st == "OK" and text.startswith("ok\t"):
            f = text.split("\t")
            total += int(f[1])
            shapes.update(f[2].split(","))
            continue
        if st == "OK" and text.startswith("DIFF\t"):
            _, kind, hx, detail = text.split("\t", 3)
            s = bytes.fromhex(hx)
            reported += 1
            if reported <= 3:
                chk.violation(sig="%s:%s:%s" % (part, kind, hx), what="input %s: %s" % (jstr(s), detail.replace("\\x0a", " | ")),
                              replay_text=replay_chunklaw(s), replay_cmd="janet <this file>")
            else:
                chk.violations += 1
            continue
        if st in ("CRASH", "TIMEOUT"):
            chk.violation(sig="%s:%s:%s" % (part, st.lower(), re.sub(r"\s+", "_", it)[:60]),
                          what="interpreter %s (%s build) on byte family %s: %s" % (st, variant, it, text[-800:]),
                          replay_text=read("proto.janet") + "\n# family %s: feed every member to (c11/whole s) and (c11/chunked s (range 1 (length s)))\n" % it
                          + "(def item '%s)\n(def ctx (in item 1))\n(def n (in item 2))\n" % it
                          + "(defn rec [pre k] (if (= k 0) (do (c11/whole pre) (c11/chunked pre (range 1 (length pre)))) (loop [b :range [0 256]] (rec (string pre (string/from-bytes b)) (- k 1)))))\n(rec ctx n)\n",
                          replay_cmd="janet <this file>   (use an ASan build to see memory errors)")
            continue
        raise HarnessError("driver_bytes item %s: %s %s" % (it, st, text[:500]))
    for sh in shapes:
        chk.outcome("D:" + sh)
    chk.add(evaluations=3 * total, transitions=3 * total, states=total)
    chk.part(part, strings=total, distinct_event_shapes=len(shapes), variant=variant)
    return total


def part_bytes(chk):
    items = []
    # all byte strings of length 1 and 2, no context and after every context
    for ctx in CONTEXTS:
        items.append(jdn([Kw("bytes"), ctx, 1, 0, 256]))
        if ctx == b"" or not chk.quick:
            for lo in range(0, 256, 16):
                items.append(jdn([Kw("bytes"), ctx, 2, lo, lo + 16]))
    if chk.quick:
        # length 2 after contexts and length 3 over a 58-byte subset that has every special byte
        for ctx in CONTEXTS:
            if ctx != b"":
                for lo in range(0, len(SUB48), 8):
                    items.append(jdn([Kw("bytes2"), ctx, 2, SUB48, lo, min(lo + 8, len(SUB48))]))
        for lo in range(0, len(SUB48), 2):
            items.append(jdn([Kw("bytes2"), b"", 3, SUB48, lo, min(lo + 2, len(SUB48))]))
        n = run_bytes_items(chk, "asan", "bytes:asan", items, chunk=2)
        chk.part("bytes:asan", bound="all 256^n strings n<=2; 256 x %d contexts; %d^2 after each context; %d^3" % (len(CONTEXTS), len(SUB48), len(SUB48)))
    else:
        for lo in range(0, 256):
            items.append(jdn([Kw("bytes"), b"", 3, lo, lo + 1]))
        n = run_bytes_items(chk, "asan", "bytes:asan", items, chunk=2)
        chk.part("bytes:asan", bound="all 256^n strings n<=3; 256^n n<=2 after each of %d contexts" % len(CONTEXTS))


U129 = bytes([0x61] + list(range(0x80, 0x100)))
R7 = bytes([0x61, 0x80, 0x8F, 0x90, 0x9F, 0xA0, 0xBF, 0xC0, 0xFF])


def part_utf8(chk):
    """symbols/keywords made of non-ASCII bytes: value iff the bytes are valid UTF-8 (encoding only)"""
    jobs = []
    for pre in (b"", b":"):
        jobs.append((pre, U129, 1, b""))
        jobs.append((pre, U129, 2, b""))
        for b0 in U129:
            if pre == b"" or not chk.quick:
                jobs.append((pre + bytes([b0]), U129, 2, b""))
        for b0 in range(0xF0, 0xF9):
            jobs.append((pre + bytes([b0]), R7, 3, b""))
            jobs.append((pre + b"a" + bytes([b0]), R7, 3, b"z"))
    items = [jdn([Kw("utf8"), p, a, n, post]) for p, a, n, post in jobs]
    res = run_batch("fast", D_BYTES, items, chunk=8, timeout=300)
    total = wrong = 0
    seen_out = set()
    vcache = {}
    for (pre, alpha, n, post), (st, text) in zip(jobs, res):
        if st != "OK" or not text.startswith("utf8\t"):
            if st in ("CRASH", "TIMEOUT"):
                chk.violation(sig="utf8:%s:%s" % (st.lower(), pre.hex()), what="%s on utf-8 family prefix %s" % (st, jstr(pre)),
                              replay_text="(parse-all %s)\n" % jstr(pre + b"\xff\xff"), replay_cmd="janet <this file>")
                continue
            raise HarnessError("driver_bytes utf8 %s: %s %s" % (jstr(pre), st, text[:300]))
        got = text.split("\t", 1)[1]
        iskw = pre[:1] == b":"
        for ch, combo in zip(got, itertools.product(alpha, repeat=n)):
            total += 1
            tok = pre + bytes(combo) + post
            body = tok[1:] if iskw else tok
            ok = vcache.get(body)
            if ok is None:
                ok = vcache[body] = M.valid_utf8(body)
            exp = ("K" if iskw else "S") if ok else "E"
            seen_out.add(ch + exp)
            if ch != exp:
                wrong += 1
                if wrong <= 3:
                    chk.violation(sig="utf8:%s:%s" % ("accepts-invalid" if exp == "E" else "rejects-valid", tok.hex()),
                                  what="token %s: expected %s (valid_utf8=%s) got %s" % (jstr(tok), exp, exp != "E", ch),
                                  replay_text="(def r (try (parse-all %s) ([e] [:error e])))\n(pp r)\n# expected: %s\n" % (
                                      jstr(tok), "a parse error (invalid UTF-8)" if exp == "E" else "one symbol/keyword"),
                                  replay_cmd="janet <this file>")
                else:
                    chk.violations += 1
        if len(got) != len(alpha) ** n:
            raise HarnessError("utf8 family %s: %d results" % (jstr(pre), len(got)))
    for o in seen_out:
        chk.outcome("U:" + o, nontrivial=False)
    chk.add(evaluations=total, states=total)
    chk.part("utf8", tokens=total, mismatches=wrong, outcomes=sorted(seen_out))


# ------------------------------------------------------------------------------------------------
# part E

UNITS9 = [b"a", b'"', b"\\", b"\n", b"\0", b"\x7f", b"\xff", "é".encode(), "€".encode()]
TOKENISH = [b"-", b"+", b".", b"1", b"e", b":", b"n", b"i", b"l", b"x", b"0", b"_", b"@", b"r", b"&"]

JDN_CLASSES_KNOWN_SHAPE = re.compile(r"^symbol:reads-back-as-(number|nil|boolean|keyword|core/s64|core/u64)$")


def jdn_sig(cls):
    if JDN_CLASSES_KNOWN_SHAPE.match(cls):
        return "jdn:symbol-spelled-like-another-token-is-printed"
    if cls == "symbol:printed-text-has-no-value":
        return "jdn:empty-symbol-prints-nothing"
    return "jdn:" + cls


def jdn_replay(cls, label_hex):
    ty = cls.split(":")[0]
    try:
        raw = bytes.fromhex(label_hex)
    except ValueError:
        raw = None
    if ty in ("symbol", "keyword", "string", "buffer") and raw is not None:
        ctor = {"symbol": "(symbol %s)", "keyword": "(keyword %s)", "string": "%s", "buffer": "(buffer %s)"}[ty] % jstr(raw)
    elif ty == "number" and raw is not None and len(raw) == 8:
        import struct
        ctor = repr(struct.unpack(">d", raw)[0])
    else:
        ctor = "nil # value: %s" % (raw.decode(errors="replace") if raw else label_hex)
    return ("(def v %s)\n(def text (string/format \"%%j\" v))\n(printf \"printed: %%q\" text)\n"
            "(def back (parse text))\n(printf \"parsed back: %%q (type %%q), original type %%q\" back (type back) (type v))\n"
            "(unless (and (= (type back) (type v)) (deep= back v)) (print \"NOT DEEP-EQUAL\") (os/exit 1))\n" % ctor)


def mutable_key(nd):
    k = nd[0]
    if k in ("struct", "table"):
        return any(kk[0] in ("arr", "table") or (kk[0] == "atom" and kk[1][:1] == b"@") or mutable_key(kk) or mutable_key(vv) for kk, vv in nd[1])
    if k in ("tup", "arr"):
        return any(mutable_key(c) for c in nd[2])
    if k == "rm":
        return mutable_key(nd[2])
    return False


def part_jdn(chk):
    items = []
    labels = []
    # byte-string universe -> string, buffer, symbol, keyword
    maxlen = 4 if chk.quick else 5
    for n in range(0, maxlen + 1):
        if n <= 3:
            items.append(jdn([Kw("units"), UNITS9, n, b""]))
        else:
            for p in itertools.product(UNITS9, repeat=n - 3):
                items.append(jdn([Kw("units"), UNITS9, 3, b"".join(p)]))
    allb = [bytes([i]) for i in range(256)]
    items.append(jdn([Kw("units"), allb, 1, b""]))
    for b0 in range(256):
        items.append(jdn([Kw("units"), allb, 1, bytes([b0])]))
    if not chk.quick:
        for b0 in range(256):
            for b1 in range(0, 256, 1):
                if b0 < 0x80 and b1 < 0x80 and not (b0 in b'"\\' or b1 in b'"\\'):
                    continue   # plain ASCII pairs are covered by the pair family above
                items.append(jdn([Kw("units"), allb, 1, bytes([b0, b1])]))
    # symbols/keywords spelled like other tokens
    for n in range(1, (4 if chk.quick else 5) + 1):
        if n <= 3:
            items.append(jdn([Kw("units"), TOKENISH, n, b""]))
        else:
            for p in itertools.product(TOKENISH, repeat=n - 3):
                items.append(jdn([Kw("units"), TOKENISH, 3, b"".join(p)]))
    for w in [b"nil", b"true", b"false", b"nil?", b"-1", b"0x10", b"-0x10", b"1e3", b"-1e3", b":a", b"", b"a b", b"a(b", b"1:s", b"-1:s", b"-1:u", b"1:n", b"-1:n",
              b"2r1", b"-2r1", b"+36rz", b".5", b"-.5", b"5.", b"-5.", b"1_0", b"-1_0", b"-_1", b"--1", b"+-1", b"-1-", b"@a", b"@", b"a@", b"@[", b"#a", b"a#b", b"a\"b", b"a`b", b"`a"]:
        items.append(jdn([Kw("units"), [w], 1, b""]))
    # numbers
    step = 64 if chk.quick else 16
    # (exponent field 2047 = inf/NaN payloads: not Janet numbers under NaN boxing; inf and the NaN are :eval items)
    for elo in range(0, 2047, step):
        items.append(jdn([Kw("nums"), elo, min(elo + step, 2047), M.MANTISSAS]))
    # nested data: the by-construction tree universe as literal data
    lay = M.LAYOUTS[1]
    seen = set()
    for nodes in M.tree_universe(not chk.quick):
        for nd in nodes:
            text, _ = M.render([nd], lay)
            if text in seen or b"`" in text or mutable_key(nd):
                continue      # deep= looks keys up by identity: a mutable key can never be deep= to its copy
            seen.add(text)
            if all(32 <= c < 127 for c in text):
                items.append("[:val %s true]" % text.decode())
    for a in M.all_atoms():
        t = a[1]
        if all(32 <= c < 127 for c in t) and t not in seen:
            seen.add(t)
            must = not (a[2].startswith(b"<core/") or a[2] in (b"inf", b"-inf"))
            items.append("[:val %s %s]" % (t.decode(), "true" if must else "false"))
    ev = [
        ("(do (def a @[1 2]) [a a @{:k a}])", True),
        ("(do (def a @[]) (array/push a a) a)", False),
        ("(do (def t @{}) (put t :self t) t)", False),
        ("(do (def a @[]) (def b @[a]) (array/push a b) [a])", False),
        ("math/nan", False), ("math/inf", False), ("math/-inf", False), ("[1 math/nan]", False), ("@{:a math/inf}", False), ("{math/inf 1}", False),
        ("(int/s64 1)", False), ("(int/u64 1)", False), ("print", False), ("(fn [] 1)", False), ("(fiber/new (fn [] 1))", False),
        ("(parser/new)", False), ("[1 print]", False), ("@{:f (fn [])}", False), ("{:k (int/s64 5)}", False),
        ("(table/setproto @{:a 1} @{:b 2})", False), ("(struct/with-proto {:a 1} :b 2)", False),
        ("(symbol \"a b\")", False), ("[(symbol \"1x\")]", False), ("{(keyword \"a b\") 1}", False), ("@[(symbol \"\\xff\")]", False),
        ("(tuple/brackets 1 2)", True), ("(tuple/brackets)", True), ("[(tuple/brackets :a) @[(tuple/brackets)]]", True),
        ("(- 0)", True), ("[(- 0)]", True), ("(/ 1 3)", True), ("[0.1 0.2 (+ 0.1 0.2)]", True), ("1e308", True), ("5e-324", True), ("(math/pow 2 53)", True),
        ("(string/repeat \"ab\\n\" 300)", True), ("(buffer/new-filled 300 0)", True), ("(string/from-bytes ;(range 256))", True),
        ("(array/new-filled 300 @\"\")", True), ("(struct ;(mapcat |[$ (string $)] (range 100)))", True), ("(table ;(mapcat |[(string $) @[$]] (range 100)))", True),
    ]
    for depth in (1, 2, 5, 10, 50, 200):
        ev.append(("(do (var x 1) (repeat %d (set x [x])) x)" % depth, True))
        ev.append(("(do (var x @{}) (repeat %d (set x @{:k x})) x)" % depth, True))
        ev.append(("(do (var x @[]) (repeat %d (set x @[x 1])) x)" % depth, True))
        ev.append(("(do (var x {}) (repeat %d (set x {:k x})) x)" % depth, True))
        if depth <= 5:
            ev.append(("(do (var x {}) (repeat %d (set x {x :v})) x)" % depth, True))
            ev.append(("(do (var x []) (repeat %d (set x [{x [x]}])) x)" % depth, True))
    for form, must in ev:
        items.append("[:eval %s %s]" % (form, "true" if must else "false"))
    res = run_batch("fast", D_JDN, items, chunk=40, timeout=100)
    tot = dict(n=0, printed=0, refused=0, strict=0)
    classes = {}
    for it, (st, text) in zip(items, res):
        if st != "OK" or not text.startswith("ok\t"):
            if st in ("CRASH", "TIMEOUT"):
                chk.violation(sig="jdn:%s:%s" % (st.lower(), re.sub(r"\s+", "_", it)[:60]), what="%s while printing/parsing item %s: %s" % (st, it, text[-500:]),
                              replay_text="# item of props/C11/driver_jdn.janet: %s\n" % it, replay_cmd="see driver_jdn.janet")
                continue
            raise HarnessError("driver_jdn item %s: %s %s" % (it[:200], st, text[:500]))
        f = text.split("\t")
        for k, v in zip(("n", "printed", "refused", "strict"), f[1:5]):
            tot[k] += int(v)
        if f[5]:
            for ent in f[5].split(";"):
                cls, rest = ent.split("=", 1)
                ex, cnt = rest.rsplit(":", 1)
                c = classes.setdefault(cls, [ex, 0])
                c[1] += int(cnt)
                if (len(ex), ex) < (len(c[0]), c[0]):
                    c[0] = ex
    chk.add(evaluations=tot["n"], transitions=tot["printed"], states=tot["n"])
    chk.outcome("E:printed")
    if tot["refused"]:
        chk.outcome("E:refused")
    chk.part("jdn", values=tot["n"], printed_and_read_back=tot["printed"], refused=tot["refused"],
             read_back_equal_but_not_identical_in_canon=tot["strict"], failing_classes={k: v[1] for k, v in classes.items()})
    bysig = {}
    for cls in sorted(classes):
        ex, cnt = classes[cls]
        chk.outcome("E:" + cls)
        e = bysig.setdefault(jdn_sig(cls), [])
        e.append((cls, ex, cnt))
    for sig in sorted(bysig):
        ents = bysig[sig]
        cls, ex, cnt = min(ents, key=lambda e: (len(e[1]), e[1]))
        total = sum(e[2] for e in ents)
        try:
            shown = jstr(bytes.fromhex(ex))
        except ValueError:
            shown = ex
        chk.violation(sig=sig, what="%%j round trip broken for %d values (%s); smallest: %s of %s" % (
            total, ", ".join("%s x%d" % (e[0], e[2]) for e in ents), cls, shown),
            replay_text=jdn_replay(cls, ex), replay_cmd="janet <this file>")


# ------------------------------------------------------------------------------------------------
# part F

OPS = b'a( )"pefszc'
OP_NAMES = {ord("p"): "(parser/produce p)", ord("e"): "(parser/error p)", ord("f"): "(parser/flush p)", ord("s"): "(parser/state p)",
            ord("z"): "(parser/eof p)", ord("c"): "(set p (parser/clone p))"}


def replay_ops(hist, law):
    lines = ["# history: %s   (law %s, see props/C11/driver_ops.janet)" % (esc(hist), law), "(var p (parser/new))"]
    for c in hist:
        lines.append(OP_NAMES.get(c, "(parser/consume p %s)" % jstr(bytes([c]))))
    lines += ["(printf \"status %q has-more %q where %q\" (parser/status p) (parser/has-more p) (parser/where p))",
              "(def n (length (((parser/state p :frames) 0) :args)))   # reads the root frame",
              "(def q (parser/clone p)) (var k 0) (while (parser/has-more q) (parser/produce q) (++ k))",
              "(printf \"root frame lists %d queued values, produce delivers %d\" n k)",
              "# the full set of invariants:"]
    return ("\n".join(lines) + "\n" + read("proto.janet") + "\n" + strip_imports(read("opslib.janet"))
            + "\n(try (do (run-history %s) (print \"all invariants hold\")) ([e] (print \"INVARIANT BROKEN: \" e) (os/exit 1)))\n" % jstr(hist))


def run_ops(chk, variant, depth, part):
    plen = 2 if depth > 3 else 0
    items = [jdn([Kw("ops"), OPS, depth, bytes(p)]) for p in itertools.product(OPS, repeat=plen)]
    env = {"C11_OPS_ASAN": "1"} if variant != "fast" else None
    res = run_batch(variant, os.path.join(HERE, "driver_ops.janet"), items, chunk=2, timeout=900, env=env)
    nh = nops = 0
    outs = set()
    worst = {}
    for it, (st, text) in zip(items, res):
        if st == "OK" and text.startswith("ok\t"):
            f = text.split("\t")
            nh += int(f[1])
            nops += int(f[2])
            outs.update(f[3].split(","))
            if len(f) > 4 and f[4]:
                for ent in f[4].split("\x01"):
                    law, hist, cnt, detail = ent.split("=", 3)
                    w = worst.setdefault(law, [hist, 0, detail])
                    w[1] += int(cnt)
                    if (len(hist), hist) < (len(w[0]), w[0]):
                        w[0], w[2] = hist, detail
            continue
        if st in ("CRASH", "TIMEOUT"):
            chk.violation(sig="%s:%s:%s" % (part, st.lower(), re.sub(r"\s+", "_", it)[:50]),
                          what="interpreter %s (%s build) in operation histories %s: %s" % (st, variant, it, text[-900:]),
                          replay_text="# family %s of props/C11/driver_ops.janet\n" % it + read("proto.janet") + "\n" + strip_imports(read("opslib.janet")),
                          replay_cmd="janet <this file> after appending (run-history \"<ops>\") for the histories of the family; use an ASan build")
            continue
        raise HarnessError("driver_ops item %s: %s %s" % (it, st, text[:500]))
    for o in outs:
        chk.outcome("F:" + o)
    chk.add(evaluations=nops, transitions=nops, states=nh)
    chk.part(part, histories=nh, operations=nops, depth=depth, variant=variant, alphabet=esc(OPS), state_classes=len(outs),
             broken={k: v[1] for k, v in worst.items()})
    for law in sorted(worst):
        hist, cnt, detail = worst[law]
        chk.violation(sig="ops:%s" % law, what="%d histories break %s; shortest: %s -- %s" % (cnt, law, jstr(hist.encode("latin-1")), detail),
                      replay_text=replay_ops(hist.encode("latin-1"), law), replay_cmd="janet <this file>")


def part_ops(chk):
    run_ops(chk, "fast", 5 if chk.quick else 6, "ops:fast")
    run_ops(chk, "asan", 4 if chk.quick else 5, "ops:asan")


def part_ops_deep(chk):
    if chk.quick:
        return
    if chk.out_of_time(0.85):
        chk.cap("ops: depth 7 not run")
        return
    run_ops(chk, "fast", 7, "ops:fast-depth7")


# ------------------------------------------------------------------------------------------------

def main():
    chk = Check("C11", description=__doc__)
    chk.rule("A/B: for every enumerated input string s, the event log (values with the source position of every tuple, "
             "errors with message and parser/where, final position and status) of s fed WHOLE with the canonical protocol "
             "(consume; drain produce while has-more; take error) is compared with every chunking (all 2^(n-1) for n<=10), with pure "
             "queries before/after every byte, with the observation after every prefix, and with clones taken at every position "
             "(drained and undrained), clone and original continuing independently. C: texts are generated from value trees, so "
             "values and positions are known by construction. D: every byte value, ASan build. E: %j -> parse -> deep=. "
             "A case is distinct by its byte string (A-D) or value (E); non-trivial = distinct event shapes are counted.")
    chk.assume("deep= (boot.janet) is the notion of deep equality of the property; the prelude's canon is only used for an informative stricter count")
    chk.assume("line/column convention of the by-construction oracle follows parse.c (see NOTES.md): \\r, \\n, \\r\\n end a line; a value's "
               "position is where its parser state was pushed")
    only = chk.args.only
    vjanet("fast")
    fams = FAMILIES_QUICK if chk.quick else FAMILIES_THOROUGH
    texts = None

    def timed(name, fn, *a):
        t0 = chk.elapsed()
        fn(chk, *a)
        chk.part("wall_s", **{name: round(chk.elapsed() - t0, 1)})

    if only in (None, "values", "templates"):
        texts = value_texts(chk)
    if only in (None, "values"):
        timed("values", part_values, texts)
    if only in (None, "enum"):
        timed("enum-first", part_enum, fams[:1])
    if only in (None, "jdn"):
        timed("jdn", part_jdn)
    if only in (None, "ops"):
        timed("ops", part_ops)
    if only in (None, "utf8"):
        timed("utf8", part_utf8)
    if only in (None, "bytes"):
        timed("bytes", part_bytes)
    if only in (None, "templates"):
        timed("templates", part_templates, texts)
    if only in (None, "enum"):
        timed("enum-rest", part_enum, fams[1:])
    if only in (None, "ops"):
        timed("ops-deep", part_ops_deep)
    chk.sample({"part": "enum", "first": "", "middle": esc(A21[:3]), "last": esc(A21[-1:] * 4)})
    if texts:
        for i in (0, len(texts) // 2, len(texts) - 1):
            chk.sample({"part": "values", "text": esc(texts[i][0]), "expected": esc(texts[i][1]), "kind": texts[i][2]})
    chk.finish()


if __name__ == "__main__":
    harness_guard(main)
