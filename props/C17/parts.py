"""C17 enumerators: every part yields the full product of its argument alphabets (simplest first)."""
import itertools
import math

import model as M
from model import Buf, Arr, Kw, Sym, BTuple, Tab, Struct, Fn, Alias, U64, S64

A4 = [97, 98, 0, 255]        # a b NUL 0xff


def strs(alpha, maxlen, minlen=0):
    for n in range(minlen, maxlen + 1):
        for t in itertools.product(alpha, repeat=n):
            yield bytes(t)


def fn(name):
    return Fn(name, M.FNS[name])


OMIT = object()      # argument not passed at all


def call(fname, *args):
    """drop trailing OMIT markers (optional arguments not passed)"""
    args = list(args)
    while args and args[-1] is OMIT:
        args.pop()
    if any(a is OMIT for a in args):
        return None
    return (fname, args)


def calls(fname, *domains):
    for t in itertools.product(*domains):
        c = call(fname, *t)
        if c is not None:
            yield c


def as_types(b, kinds="sbky"):
    """the byte sequence b as string / buffer / keyword / symbol (the latter two only if printable)"""
    out = []
    if "s" in kinds:
        out.append(b)
    if "b" in kinds:
        out.append(Buf(b))
    if all(97 <= c <= 122 for c in b) and b:
        if "k" in kinds:
            out.append(Kw(b.decode()))
        if "y" in kinds:
            out.append(Sym(b.decode()))
    return out


ILL = [None, True, 1.5, float("nan"), float("inf"), 2.0 ** 31, -2.0 ** 31 - 1, 2.0 ** 53, Kw("k"), b"s", Buf(b"b"),
       (1, 2), Arr([1]), Tab([(1, 2)]), Struct([(1, 2)]), Fn("inc", None)]


# ---------------------------------------------------------------------------
# bytes functions

def p_find(q):
    n = 3 if q else 5
    pats = list(strs(A4, 2))
    starts = [OMIT, -1, 0, 1, 2, 3, 4, 5]
    for f in ("string/find", "string/find-all"):
        yield from calls(f, pats, list(strs(A4, n)), starts)


def p_find_kmp(q):
    """longer self-overlapping patterns over {a,b}: exercises the failure table"""
    pl, tl = (4, 7) if q else (4, 9)
    pats = list(strs([97, 98], pl, 1))
    texts = list(strs([97, 98], tl))
    for f in ("string/find", "string/find-all"):
        yield from calls(f, pats, texts, [OMIT, 1, 2])
    yield from calls("string/replace-all", pats, [b"X", b""], texts)
    yield from calls("string/replace", pats, [b"X"], texts)
    yield from calls("string/split", pats, texts)


def p_find_types(q):
    for f in ("string/find", "string/find-all", "string/has-prefix?", "string/has-suffix?", "string/check-set"):
        for p in strs([97, 98], 2):
            for t in strs([97, 98], 3):
                for pp in as_types(p):
                    for tt in as_types(t):
                        yield (f, [pp, tt])


def p_replace(q):
    n = 3 if q else 4
    pats = list(strs(A4, 2))
    substs = [b"", b"x", b"ab", b"\0\xff", Buf(b"yz"), Kw("k"), 7, fn("const-xy"), fn("dbl"), fn("empty-s"),
              fn("string/ascii-upper"), fn("retnum")]
    for f in ("string/replace", "string/replace-all"):
        yield from calls(f, pats, substs, list(strs(A4, n)))
        yield from calls(f, list(strs(A4, 2, 1)), [b"x", fn("dbl")], list(strs(A4, 3)), [-1, 0, 1, 2, 3, 4])


def p_split(q):
    n = 3 if q else 4
    pats = list(strs(A4, 2))
    yield from calls("string/split", pats, list(strs(A4, n)), [OMIT, -1, 0, 1, 2, 3, 5])
    yield from calls("string/split", list(strs(A4, 2, 1)), list(strs(A4, n)), [0, 1, 2], [-1, 0, 1, 2, 3, 4])
    yield from calls("string/split", [b"a"], [b"banana", Buf(b"banana"), Kw("banana")], [OMIT, None, 0, 3, 6, 7], [OMIT, None, 2])


def p_slice(q):
    n = 3 if q else 4
    idx = [OMIT, None] + list(range(-(n + 2), n + 3))
    for f in ("string/slice", "buffer/slice", "symbol/slice", "keyword/slice"):
        for s in strs(A4 if n == 3 else [97, 98, 0], n):
            ix = [OMIT, None] + list(range(-(len(s) + 2), len(s) + 3))
            yield from calls(f, [s], ix, ix)
            yield from calls(f, [Buf(s)], ix, ix)
        for s in (Kw("abc"), Sym("abc")):
            yield from calls(f, [s], idx, idx)


def p_trim(q):
    n = 4 if q else 5
    alpha = [32, 10, 97, 0]
    sets = [OMIT, b"", b"a", b" ", b"a ", b"\0", b"\n\0", b"a \n\0", Buf(b"a"), Kw("a")]
    for f in ("string/trim", "string/triml", "string/trimr"):
        yield from calls(f, list(strs(alpha, n)), sets)
        yield from calls(f, [Buf(b" a "), Kw("aba"), Sym("aba"), b"\t\r\n\v\f x \t\r\n\v\f", b"\x0b\x0c\x1f \x7f"], sets)


def p_bytes_misc(q):
    n = 3 if q else 4
    S = list(strs(A4, n))
    yield from calls("string/repeat", S, [-2, -1, 0, 1, 2, 3, 7])
    yield from calls("string/repeat", [Buf(b"ab"), Kw("ab"), Sym("ab")], [0, 2])
    case_alpha = [64, 65, 90, 91, 96, 97, 122, 123, 0, 255, 193, 225]
    for f in ("string/ascii-lower", "string/ascii-upper", "string/reverse", "string/bytes"):
        yield from calls(f, list(strs(case_alpha, 2)) + S)
        yield from calls(f, [bytes(range(256)), Buf(b"aB"), Kw("aB"), Sym("aB")])
    byte_vals = [-257, -256, -1, 0, 1, 97, 255, 256, 511, 2 ** 31 - 1, -2 ** 31]
    for f in ("string/from-bytes", "buffer/from-bytes"):
        yield (f, [])
        yield from calls(f, byte_vals)
        yield from calls(f, byte_vals, byte_vals)
        yield from calls(f, [97], [98], byte_vals)
    for f in ("string/has-prefix?", "string/has-suffix?", "string/check-set"):
        yield from calls(f, list(strs(A4, 3)), S)
    parts_alpha = [b"", b"a", b"b\0", Buf(b"c"), Kw("k"), Sym("y")]
    seps = [OMIT, b"", b",", b"\0\xff", Buf(b"-"), Kw("s")]
    for k in range(0, 4 if q else 5):
        for t in itertools.product(parts_alpha, repeat=k):
            for sep in seps:
                yield call("string/join", tuple(t), sep)
                yield call("string/join", Arr(t), sep)
    yield from calls("string/join", [(b"a", 1), Arr([b"a", None]), (b"a", (b"b",)), b"ab", Buf(b"ab")], [OMIT, b","])


# ---------------------------------------------------------------------------
# buffer mutators

def bufs(n, alpha=(97, 0, 255)):
    """buffers of length 0..n; content only matters through distinct positions"""
    for k in range(n + 1):
        yield bytes((alpha[i % len(alpha)] + i) & 0xFF if alpha[i % len(alpha)] == 97 else alpha[i % len(alpha)]
                    for i in range(k))


def p_buffer_push(q):
    n = 6 if q else 12
    pieces = [b"", b"x", b"\0\xff", Buf(b"pq"), Kw("kw"), Sym("sy"), 0, 65, -1, 256, 1000]
    for b in bufs(n):
        for f in ("buffer/push",):
            yield (f, [Buf(b)])
            yield from calls(f, [Buf(b)], pieces)
            yield from calls(f, [Buf(b)], pieces, pieces)
            # self-aliasing
            yield (f, [Buf(b), Alias(0)])
            yield (f, [Buf(b), Alias(0), Alias(0)])
            yield from calls(f, [Buf(b)], [Alias(0)], [b"x", 65])
            yield from calls(f, [Buf(b)], [b"x", 65], [Alias(0)])
            yield (f, [Buf(b), b"x", Alias(0), b"y", Alias(0)])
        yield from calls("buffer/push-string", [Buf(b)], [b"", b"x", b"\0\xff", Buf(b"pq"), Kw("kw"), Sym("sy"), Alias(0)],
                         [OMIT, b"z", Alias(0)])
        yield from calls("buffer/push-byte", [Buf(b)], [OMIT, 0, 65, -1, 255, 256, -256, 2 ** 31 - 1], [OMIT, 66])
        yield from calls("buffer/push-word", [Buf(b)], [OMIT, 0, 1, 0x01020304, 2 ** 31, 2 ** 32 - 1, 2.0 ** 32, 1.5, -1], [OMIT, 7])
    # growth boundaries: many sizes of buffer x many sizes of pushed data
    m = 18 if q else 66
    for i in range(m):
        for j in range(m):
            yield ("buffer/push", [Buf(bytes(range(i))), bytes(range(100, 100 + j))])
            yield ("buffer/push-string", [Buf(bytes(range(i))), bytes(range(100, 100 + j))])
        yield ("buffer/push", [Buf(bytes(range(i))), Alias(0)])
        yield ("buffer/push", [Buf(bytes(range(i))), Alias(0), Alias(0), Alias(0)])
        yield ("buffer/push-string", [Buf(bytes(range(i))), Alias(0), Alias(0)])


def p_buffer_push_at(q):
    n = 4 if q else 8
    pieces = [b"", b"x", b"xyz", b"\0\xff", Buf(b"pq"), Kw("kw"), 65, 256]
    for b in bufs(n):
        ix = list(range(-2, len(b) + 3))
        yield from calls("buffer/push-at", [Buf(b)], ix)
        yield from calls("buffer/push-at", [Buf(b)], ix, pieces, [OMIT, b"Z", 66])
        yield from calls("buffer/push-at", [Buf(b)], ix, [Alias(0)], [OMIT, b"Z"])
        yield from calls("buffer/push-at", [Buf(b)], ix, [b"Z"], [Alias(0)])
        # ill-typed data after the index: must raise without losing the bytes already in the buffer
        yield from calls("buffer/push-at", [Buf(b)], ix, [OMIT, b"x"], [None, 1.5, (1,), Arr()])
    m = 12 if q else 40
    for i in range(m):
        for at in sorted(set([0, 1, i // 2, max(0, i - 1), i])):
            for j in (0, 1, 2, 3, 4, 5, 7, 8, 9, 15, 16, 17, 31, 33):
                yield ("buffer/push-at", [Buf(bytes(range(i))), at, bytes(range(100, 100 + j))])


def p_buffer_fixed(q):
    n = 3 if q else 9
    orders = [Kw("le"), Kw("be"), Kw("native"), Kw("xx"), b"le", None]
    u16 = [0, 1, 255, 256, 0x1234, 65535, 65536, -1, 1.5, float("nan"), None, b"1"]
    u32 = [0, 1, 0x01020304, 2 ** 31, 2 ** 32 - 1, 2 ** 32, -1, 1.5, float("inf"), None]
    u64 = [0, 1, 0x01020304050607, 2 ** 53, 1.5, float("nan"), None, U64(2 ** 64 - 1), U64(0x0102030405060708), S64(-1), S64(-2 ** 63)]
    f32 = [0, -0.0, 1, 1.5, -2.75, 0.1, 1e38, 1e39, -1e39, 2.0 ** -149, 2.0 ** -150, float("inf"), float("-inf"), None, b"x"]
    f64 = [0, -0.0, 1, 1.5, 0.1, 1e308, 5e-324, float("inf"), float("-inf"), None, Kw("k")]
    for b in bufs(n):
        yield from calls("buffer/push-uint16", [Buf(b)], orders, u16)
        yield from calls("buffer/push-uint32", [Buf(b)], orders, u32)
        yield from calls("buffer/push-uint64", [Buf(b)], orders, u64)
        yield from calls("buffer/push-float32", [Buf(b)], orders, f32)
        yield from calls("buffer/push-float64", [Buf(b)], orders, f64)
    for f in ("buffer/push-uint16", "buffer/push-uint32", "buffer/push-uint64", "buffer/push-float32", "buffer/push-float64"):
        yield (f, [Buf(b"a")])
        yield (f, [Buf(b"a"), Kw("le")])
        yield (f, [Buf(b"a"), Kw("le"), 1, 2])
        yield (f, [b"a", Kw("le"), 1])


def p_buffer_misc(q):
    n = 5 if q else 12
    for b in bufs(n):
        yield from calls("buffer/popn", [Buf(b)], list(range(-2, len(b) + 3)) + [1.5, None])
        yield from calls("buffer/fill", [Buf(b)], [OMIT, 0, 97, 255, 256, -1, 1.5, None])
        yield ("buffer/clear", [Buf(b)])
        yield ("buffer/trim", [Buf(b)])
        nb = len(b) * 8
        for f in ("buffer/bit", "buffer/bit-set", "buffer/bit-clear", "buffer/bit-toggle"):
            yield from calls(f, [Buf(b)], list(range(-2, nb + 3)) + [0.5, nb - 0.5, 2.0 ** 31, 2.0 ** 35, 2.0 ** 62, 2.0 ** 63, 2.0 ** 64,
                                                                      float("nan"), float("inf"), float("-inf"), None, b"1"])
            yield from calls(f, [Buf(b"\x00\xff\x55\xaa")], list(range(0, 32)))
    yield from calls("buffer/new", [-(2 ** 31), -5, -1, 0, 1, 3, 4, 5, 100, 1.5, None, 2.0 ** 31])
    yield from calls("buffer/new-filled", [-5, -1, 0, 1, 3, 4, 5, 9, 100, 1.5, None], [OMIT, 0, 97, 255, 256, -1, 1.5, None])


def p_buffer_blit(q):
    n = 3 if q else 5
    for d in bufs(n):
        for s in bufs(n, alpha=(120, 0, 255)):
            di = [OMIT, None] + list(range(-(len(d) + 2), len(d) + 3))
            si = [OMIT, None] + list(range(-(len(s) + 2), len(s) + 3))
            yield from calls("buffer/blit", [Buf(d)], [s], di, si, si)
            if len(s) == n:
                yield from calls("buffer/blit", [Buf(d)], [Buf(s), Kw("kwd"), Sym("sym")], di, [OMIT, 1], [OMIT, -2])
        # self-aliasing: a buffer blitted into itself, every index triple
        di = [OMIT, None] + list(range(-(len(d) + 2), len(d) + 3))
        yield from calls("buffer/blit", [Buf(d)], [Alias(0)], di, di, di)
    m = 10 if q else 40
    for i in range(m):
        for j in range(m):
            for at in sorted(set([0, i // 2, i])):
                yield ("buffer/blit", [Buf(bytes(range(i))), bytes(range(100, 100 + j)), at])
        for at in range(i + 1):
            for ss in sorted(set([0, 1, i // 2, i])):
                if ss <= i:
                    yield ("buffer/blit", [Buf(bytes(range(i))), Alias(0), at, ss])


# ---------------------------------------------------------------------------
# arrays and tuples

def seqs(alpha, maxlen, minlen=0):
    for n in range(minlen, maxlen + 1):
        for t in itertools.product(alpha, repeat=n):
            yield t


def iota(n):
    return tuple(range(10, 10 + n))


def p_array_slice(q):
    n = 4 if q else 9
    for k in range(n + 1):
        ix = [OMIT, None] + list(range(-(k + 2), k + 3))
        for f in ("array/slice", "tuple/slice"):
            yield from calls(f, [iota(k), Arr(iota(k)), BTuple(iota(k))], ix, ix)
    for f in ("array/slice", "tuple/slice"):
        yield from calls(f, [b"abc", Buf(b"abc"), None, 5, Tab(), Struct()], [OMIT, 0])
        yield from calls(f, [iota(3)], [1.5, float("nan"), 2.0 ** 31, b"1", Kw("a")], [OMIT, 2])
        yield from calls(f, [iota(3)], [1], [1.5, float("nan"), 2.0 ** 31, b"1"])
        yield (f, [])
        yield (f, [iota(3), 0, 1, 2])


def p_array_insert_remove(q):
    n = 4 if q else 9
    xs = [Kw("x"), Kw("y"), Kw("z")]
    for k in range(n + 1):
        ix = list(range(-(k + 3), k + 3)) + [1.5, None]
        yield from calls("array/insert", [Arr(iota(k))], ix)
        yield from calls("array/insert", [Arr(iota(k))], ix, xs[:1], [OMIT, xs[1]], [OMIT, xs[2]])
        yield from calls("array/insert", [Arr(iota(k))], ix, [Alias(0)])
        yield from calls("array/remove", [Arr(iota(k))], ix, [OMIT] + list(range(-2, k + 3)) + [1.5, None, 2147483647, 2147483646])
    yield from calls("array/insert", [iota(2), b"ab", None], [0], [1])
    yield from calls("array/remove", [iota(2), b"ab", None], [0], [1])
    yield ("array/insert", [Arr(iota(2))])
    yield ("array/remove", [Arr(iota(2))])
    yield ("array/remove", [Arr(iota(2)), 0, 1, 1])
    # growth boundaries
    m = 12 if q else 40
    for i in range(m):
        for at in sorted(set([0, i // 2, i])):
            for j in (1, 2, 3, 4, 5, 8, 9):
                yield ("array/insert", [Arr(iota(i)), at] + list(range(j)))


def p_array_concat(q):
    n = 3 if q else 6
    partsv = [1, None, b"s", (), (1,), (1, 2), Arr(), Arr([3]), Arr([3, 4]), BTuple((5,)), Alias(0), Tab(), Buf(b"b")]
    for k in range(n + 1):
        for f in ("array/concat", "array/join"):
            yield (f, [Arr(iota(k))])
            yield from calls(f, [Arr(iota(k))], partsv)
            yield from calls(f, [Arr(iota(k))], partsv, partsv)
        yield from calls("array/concat", [Arr(iota(k))], [Alias(0), (1,)], [Alias(0), 2], [Alias(0), Arr([3])])
        yield from calls("array/push", [Arr(iota(k))], [OMIT, 1, None, Alias(0)], [OMIT, 2], [OMIT, (3,)])
        yield from calls("array/fill", [Arr(iota(k))], [OMIT, 7, None, Alias(0)])
        for f in ("array/pop", "array/peek", "array/trim", "array/clear"):
            yield (f, [Arr(iota(k))])
    for f in ("array/concat", "array/join", "array/push", "array/fill", "array/pop", "array/peek", "array/trim", "array/clear"):
        yield from calls(f, [iota(2), b"ab", Buf(b"ab"), None, 5])
        yield (f, [])
    m = 14 if q else 48
    for i in range(m):
        yield ("array/concat", [Arr(iota(i)), Alias(0)])
        yield ("array/concat", [Arr(iota(i)), Alias(0), Alias(0)])
        yield ("array/join", [Arr(iota(i)), Alias(0), Alias(0)])
        for j in range(m):
            yield ("array/concat", [Arr(iota(i)), tuple(range(j))])
            yield ("array/push", [Arr(iota(i))] + list(range(j)))
    vals = [(), (1,), Arr([2, 3]), BTuple((4,)), 5, None, b"ab"]
    yield ("tuple/join", [])
    yield from calls("tuple/join", vals)
    yield from calls("tuple/join", vals, vals)
    yield from calls("tuple/join", vals[:4], vals[:4], vals[:4])
    for k in range(4):
        for t in itertools.product([1, None, (2,), Arr([3])], repeat=k):
            yield ("tuple/brackets", list(t))
            yield ("tuple", list(t))
            yield ("array", list(t))
    yield from calls("tuple/type", [(), (1,), BTuple(()), BTuple((1,)), Arr(), b"", None])
    yield from calls("array/new", [-(2 ** 31), -5, -1, 0, 1, 3, 100, 1.5, None, 2.0 ** 31])
    yield from calls("array/new-filled", [-1, 0, 1, 3, 9, 1.5, None], [OMIT, 7, None, Arr([1])])
    yield from calls("array/ensure", [Arr(iota(0)), Arr(iota(3)), iota(3)], [-1, 0, 1, 2, 10, 100, 1.5, None], [-1, 0, 1, 2, 3, 1.5, None])
    yield from calls("array/ensure", [Arr(iota(3))], [OMIT, 10])


# ---------------------------------------------------------------------------
# generic sequence functions (boot.janet)

E3 = [0, 1, 2]


def conts(t, kinds="at"):
    """the sequence t as array / tuple / string / buffer"""
    out = []
    if "t" in kinds:
        out.append(tuple(t))
    if "a" in kinds:
        out.append(Arr(t))
    if all(isinstance(x, int) and not isinstance(x, bool) and 0 <= x < 256 for x in t):
        if "s" in kinds:
            out.append(bytes(t))
        if "b" in kinds:
            out.append(Buf(bytes(t)))
    return out


def allseqs(maxlen, kinds="at", alpha=E3):
    for t in seqs(alpha, maxlen):
        for c in conts(t, kinds):
            yield c


def p_seq_map(q):
    n = 4 if q else 6
    for c in allseqs(n, "atsb"):
        for f in ("inc", "neg", "dup", "identity"):
            yield ("map", [fn(f), c])
        for f in ("dup", "rep", "wrap1", "identity", "inc"):
            yield ("mapcat", [fn(f), c])
        for f in ("evens", "lt2", "identity", "even?"):
            yield ("keep", [fn(f), c])
            yield ("some", [fn(f), c])
            yield ("all", [fn(f), c])
        for f in ("even?", "lt2", "evens", "always", "never"):
            yield ("count", [fn(f), c])
            yield ("filter", [fn(f), c])
    # truthiness alphabet
    for c in allseqs(n if q else 5, "at", [None, False, 0]):
        for f in ("identity", "truthy?", "not"):
            for g in ("map", "keep", "some", "all", "count", "filter", "find", "find-index", "take-while", "drop-while",
                      "take-until", "drop-until"):
                yield (g, [fn(f), c])
        yield ("any?", [c])
        yield ("every?", [c])
    for c in allseqs(3 if q else 4, "at", [None, False, True, 0, 1]):
        for g in ("distinct", "frequencies", "first", "last", "reverse", "length", "any?", "every?", "u/values"):
            yield (g, [c])
        for x in (None, False, 0):
            yield ("index-of", [x, c])
            yield ("has-value?", [c, x])
    # several columns: arities 2..5 (5 takes the generic path of map-template)
    m = 3
    cols = list(allseqs(m, "at")) + [b"\x00\x01", Buf(b"\x02"), None]
    for g in ("map", "mapcat", "keep", "count", "some", "all"):
        for a in cols:
            for b in cols:
                yield (g, [fn("lin" if g != "mapcat" else "tuple"), a, b])
                yield (g, [fn("tuple"), a, b])
    small = list(allseqs(2, "t")) + [Arr([2, 1, 0])]
    for g in ("map", "mapcat", "keep", "count", "some", "all"):
        for t in itertools.product(small, repeat=3):
            yield (g, [fn("lin3")] + list(t))
            yield (g, [fn("lt-sum")] + list(t))
    tiny = [(), (1,), (2, 0), Arr([0, 1, 2])]
    for g in ("map", "mapcat", "keep", "count", "some", "all"):
        for t in itertools.product(tiny, repeat=4):
            yield (g, [fn("lin4")] + list(t))
        for t in itertools.product(tiny, repeat=5):
            yield (g, [fn("lin5")] + list(t))
            yield (g, [fn("lt-sum")] + list(t))
    for t in itertools.product(cols[:12], repeat=2):
        yield ("interleave", list(t))
    for t in itertools.product(small, repeat=3):
        yield ("interleave", list(t))
    yield ("interleave", [])
    for c in allseqs(n, "atsb"):
        yield ("interleave", [c])
        for sep in (9, None, Kw("s")):
            yield ("interpose", [sep, c])
    # an erroring callback propagates; nothing is modified
    for g in ("map", "mapcat", "keep", "count", "some", "all", "filter", "find", "find-index", "take-while", "drop-while",
              "partition-by", "group-by", "sort-by", "sorted-by"):
        for c in allseqs(2, "at"):
            yield (g, [fn("boom"), c])
    for g in ("reduce", "accumulate"):
        for c in allseqs(2, "at"):
            yield (g, [fn("boom"), 0, c])


def p_seq_reduce(q):
    n = 4 if q else 6
    for c in allseqs(n, "atsb"):
        for f in ("sub", "lin", "tuple", "+"):
            for init in (0, 5, None) if f == "tuple" else (0, 5):
                yield ("reduce", [fn(f), init, c])
                yield ("accumulate", [fn(f), init, c])
            yield ("reduce2", [fn(f), c])
            yield ("accumulate2", [fn(f), c])
        for g in ("sum", "product", "mean", "min-of", "max-of", "first", "last", "length", "empty?", "reverse", "reverse!",
                  "distinct", "frequencies", "flatten", "any?", "every?", "keys", "values", "pairs", "u/keys", "u/values",
                  "u/pairs"):
            yield (g, [c])
        for o in ("<", ">", "<=", ">="):
            yield ("extreme", [fn(o), c])
    vals = [-1, 0, 1, 2, 1.5]
    for k in range(0, 4 if q else 5):
        for t in itertools.product(vals, repeat=k):
            yield ("min", list(t))
            yield ("max", list(t))
    for c in allseqs(3, "at", [-1, 0, 1.5, 2]):
        for g in ("min-of", "max-of", "sum", "product", "mean"):
            yield (g, [c])
    for g in ("sum", "product", "mean", "min-of", "max-of", "first", "last", "length", "empty?", "reverse", "reverse!",
              "distinct", "frequencies", "flatten", "any?", "every?"):
        for x in (None, 5, Kw("ab"), Sym("ab"), Tab(), Struct(), Tab([(Kw("a"), 1)]), Struct([(Kw("a"), 1)])):
            yield (g, [x])
    # elements that are not numbers: strings, keywords, tuples, nil
    for c in allseqs(3 if q else 4, "at", [None, b"a", Kw("a"), (1,)]):
        for g in ("distinct", "first", "last", "reverse", "flatten", "length"):
            yield (g, [c])
    for c in allseqs(3 if q else 4, "at", [b"a", Kw("a"), (1,), 1]):
        yield ("frequencies", [c])
        yield ("u/keys", [c])


def p_seq_take(q):
    n = 4 if q else 5
    preds = ["lt1", "lt2", "even?", "always", "never", "eq1"]
    for c in allseqs(n, "atsb"):
        k = len(c.b) if isinstance(c, Buf) else len(c)
        for i in range(-(k + 2), k + 3):
            yield ("take", [i, c])
            yield ("drop", [i, c])
        for p_ in preds:
            for g in ("take-while", "take-until", "drop-while", "drop-until", "find", "find-index"):
                yield (g, [fn(p_), c])
        for p_ in preds[:3]:
            yield ("find", [fn(p_), c, Kw("dflt")])
            yield ("find-index", [fn(p_), c, Kw("dflt")])
        for x in (0, 1, 2, 3):
            yield ("index-of", [x, c])
            yield ("index-of", [x, c, Kw("dflt")])
            yield ("has-value?", [c, x])
        ix = [OMIT, None] + list(range(-(k + 2), k + 3))
        yield from calls("slice", [c], ix, ix)
    yield from calls("take", [1.5, float("nan"), float("inf"), None, b"1"], [(0, 1, 2), b"abc"])
    yield from calls("drop", [1.5, float("nan"), float("inf"), None, b"1"], [(0, 1, 2), b"abc"])
    yield from calls("take", [2], [Kw("abc"), Sym("abc"), None, 5])
    yield from calls("drop", [2], [Kw("abc"), Sym("abc"), None, 5])
    yield from calls("slice", [None, 5, Tab(), Struct(), Kw("abc"), Sym("abc")], [OMIT, 1], [OMIT, 2])
    yield ("slice", [])
    yield ("slice", [(1, 2), 0, 1, 2])


def p_seq_partition(q):
    n = 5 if q else 7
    for c in allseqs(n, "atsb", [0, 1]):
        for k in (-1, 0, 1, 2, 3, 4, n, n + 1):
            yield ("partition", [k, c])
    for c in allseqs(4 if q else 5, "atsb"):
        for f in ("identity", "mod2", "half", "always", "evens"):
            yield ("partition-by", [fn(f), c])
            yield ("group-by", [fn(f), c])
    yield from calls("partition", [1.5, float("nan"), None, b"2"], [(0, 1, 2), b"abc"])
    yield from calls("partition", [2], [Kw("abc"), Sym("abc"), None, 5])


def p_seq_range(q):
    r = list(range(-4, 5)) if q else list(range(-6, 7))
    yield from calls("range", r)
    yield from calls("range", r, r)
    yield from calls("range", r, r, r)
    yield ("range", [])
    yield ("range", [0, 1, 2, 3])
    yield from calls("range", [None, b"1", Kw("a"), (1,)], [OMIT, 3])
    yield from calls("range", [0], [None, b"1"], [OMIT, 1])
    yield from calls("range", [0], [3], [None, b"1"])
    big = [2 ** 31, 2 ** 32, -2 ** 31, 1e10, 1e300]
    yield from calls("range", big, [OMIT] + big)
    yield from calls("range", [0], big, [1e9, -1, 2 ** 31, 1e300])


def p_seq_range_float(q):
    """start, stop, step on a grid of tenths: finite fractional ranges"""
    k = 15 if q else 30
    g = [i / 10 for i in range(-k, k + 1)]
    steps = [s for s in g if s != 0]
    if q:
        g2 = g[::3]
        yield from calls("range", g2, g2, steps)
    else:
        yield from calls("range", g[::3], g[::2], steps)
    yield from calls("range", g, g)
    yield from calls("range", g)
    nf = [float("nan"), float("inf"), float("-inf")]
    vals = [0, 1, 5, -1, 0.5] + nf
    yield from calls("range", nf)
    yield from calls("range", vals, vals)
    yield from calls("range", vals, vals, vals)


def dicts(keys, vals, maxn):
    for n in range(maxn + 1):
        for ks in itertools.combinations(keys, n):
            for vs in itertools.product(vals, repeat=n):
                yield list(zip(ks, vs))


def p_seq_dict(q):
    keys = [Kw("a"), Kw("b"), 1, b"s"]
    ds = []
    for kv in dicts(keys, [1, 2], 2):
        ds.append(Struct(kv))
        ds.append(Tab(kv))
    for k in range(0, 3):
        for t in itertools.product(ds if k < 2 else ds[::3], repeat=k):
            yield ("merge", list(t))
    for t in itertools.product(ds, repeat=2):
        if isinstance(t[0], Tab):
            yield ("merge-into", list(t))
    for d in ds:
        if isinstance(d, Tab):
            yield ("merge-into", [d])
            yield ("merge-into", [d, Alias(0)])
        for g in ("u/keys", "u/values", "u/pairs", "u/kvs", "invert", "length", "empty?", "keys", "values", "pairs"):
            yield (g, [d])
        for x in (1, 2, 3):
            yield ("index-of", [x, d])
            yield ("has-value?", [d, x])
    kk = list(allseqs(3, "at", [Kw("a"), Kw("b"), 0]))
    vv = list(allseqs(3, "at", [1, 2])) + [b"xy", Buf(b"z")]
    yield from calls("zipcoll", kk, vv)
    yield from calls("zipcoll", [b"ab", Buf(b"ab"), None], vv[:8])
    prs = [(Kw("a"), 1), (Kw("b"), 2), (Kw("a"), 3), Arr([0, 9])]
    for c in allseqs(3, "at", prs):
        yield ("from-pairs", [c])
    yield from calls("merge", [None, (1, 2), b"ab", 5], [OMIT, Struct([(Kw("a"), 1)])])


def trees(depth, width, leaves=(0, 1)):
    if depth == 0:
        for l in leaves:
            yield l
        return
    for l in leaves:
        yield l
    subs = list(trees(depth - 1, width, leaves))
    for n in range(width + 1):
        for t in itertools.product(subs, repeat=n):
            yield tuple(t)
            yield Arr(t)


def p_seq_flatten(q):
    ts = [t for t in trees(2, 2) if not isinstance(t, int)]
    for t in ts:
        yield ("flatten", [t])
        yield ("flatten-into", [Arr([9]), t])
    for t in ts[:40]:
        yield ("flatten-into", [Arr(), t])
    yield from calls("flatten", [(b"ab", (Buf(b"c"), None)), ((), Arr(), ((),)), (Tab(), (Struct(),))])
    yield ("flatten-into", [Arr([1, (2,)]), Alias(0)]) if False else ("flatten", [Arr([1, (2, Arr([3]))])])


def p_seq_sort_small(q):
    n = 4 if q else 5
    for c in allseqs(n, "a"):
        for cmpf in (OMIT, None, fn("<"), fn(">"), fn("mod2<"), fn("half>")):
            yield call("sort", c, cmpf)
            yield call("sorted", c, cmpf)
        for kf in ("identity", "neg", "mod2", "half"):
            yield ("sort-by", [fn(kf), c])
            yield ("sorted-by", [fn(kf), c])
    for c in allseqs(n, "t"):
        for cmpf in (OMIT, fn(">")):
            yield call("sorted", c, cmpf)
        yield ("sorted-by", [fn("neg"), c])
    for c in allseqs(n, "b"):
        yield ("sort", [c])
        yield ("sort", [c, fn(">")])
    for c in allseqs(3, "a", [b"a", b"b", b"ab", b""]):
        yield ("sort", [c])
        yield ("sorted", [c, fn(">")])
    for c in allseqs(3, "a", [(0, 7), (1, 8), (2, 9)]):
        yield ("sort", [c, fn("first<")])
        yield ("sorted", [c, fn("first<")])


def flagsets():
    out = []
    for k in range(0, 6):
        for t in itertools.combinations("-+ #0", k):
            out.append("".join(t))
    return out


FMT_VALUES = [None, True, False, 0, -0.0, 1, -1, 1.5, -0.25, 0.1, 1e100, 1e21, 123456789012, 1e15, 1e16, 1 / 3, float("inf"),
              float("-inf"), b'a\n"b\\', b"", b"\0\xff\x1b\t", b"\x07\x08\x0b\x0c\r\x7f\x80", Kw("kw"), Sym("sym"), Buf(b"buf\n"),
              Buf(b""), (1, 2), Arr([1, b"x", Kw("k")]), Struct([(Kw("a"), 1)]), Tab([(Kw("a"), 1)]), (), Arr(), Struct(), Tab(),
              BTuple((1, BTuple(()))), ((1,), Arr([2, (3,)])), (1, (2, (3, (4,)))), Struct([(Kw("a"), 1), (Kw("b"), (2,))]),
              Tab([(Kw("a"), Arr([1])), (Kw("b"), Struct())]), S64(-5), U64(2 ** 64 - 1)]


def p_format(q):
    F = flagsets()
    if q:
        F = [f for f in F if len(f) <= 2] + ["-+ #0"]
    ints = [0, 1, -1, 255, -255, 65535, 2 ** 31, -2 ** 31, 2 ** 53, -2 ** 53, 12345678901]
    widths = ["", "1", "5", "12"] if not q else ["", "5", "12"]
    precs = ["", ".", ".0", ".3", ".10"] if not q else ["", ".0", ".3"]
    for conv in "dixXou":
        for f in F:
            for w in widths:
                for pr in precs:
                    for v in ints:
                        yield ("string/format", [("%" + f + w + pr + conv).encode(), v])
    floats = [0, -0.0, 1, -1, 1.5, 2.5, 0.5, 0.125, 0.1, 123456.789, 1e-5, 0.0001, 1e21, 1e100, 1e-300, float("inf"), float("-inf"),
              999999.5, 9.9999995, 5e-324]
    fw = ["", "8", "14"] if not q else ["", "14"]
    fp = ["", ".", ".0", ".2", ".10", ".17"] if not q else ["", ".0", ".2", ".17"]
    for conv in "eEfgG":
        for f in F:
            for w in fw:
                for pr in fp:
                    for v in floats:
                        yield ("string/format", [("%" + f + w + pr + conv).encode(), v])
    for conv in "aAF":
        for v in (1.5, 0, b"x"):
            yield ("string/format", [("%" + conv).encode(), v])
    # ill-typed / out of range values for numeric conversions
    for conv in "dixXoucefg":
        for v in (None, 1.5, float("nan"), float("inf"), 2.0 ** 64, -2.0 ** 64, b"", Kw("k"), (1,), Buf(b"1"), S64(-1), U64(2 ** 64 - 1), U64(7)):
            yield ("string/format", [("%" + conv).encode(), v])
    for f in ("", "-", "0", "#", "+"):
        for w in ("", "1", "3"):
            for v in (0, 65, 255, 256, -1, 97.0):
                yield ("string/format", [("%" + f + w + "c").encode(), v])
    svals = [b"", b"a", b"abc", b"ab\0c", b"\xff\xfe", Kw("kw"), Sym("sym"), b"x" * 99, b"x" * 100, b"x" * 101, b"y" * 300,
             5, None, (1,)]
    for f in ("", "-", "0", "-0", "+", " ", "#"):
        for w in ("", "2", "6", "99"):
            for pr in ("", ".", ".0", ".2", ".5", ".99"):
                for v in svals:
                    yield ("string/format", [("%" + f + w + pr + "s").encode(), v])
    for v in (Buf(b"bf"), Buf(b"")):
        yield ("string/format", [b"%s", v])
        yield ("string/format", [b"[%s]%s", v, v])
    for conv in "vVqpmnjtQPMN":
        for pr in ("", ".", ".0", ".1", ".2", ".3", ".4", "5", "-5", "5.2"):
            for v in FMT_VALUES:
                yield ("string/format", [("%" + pr + conv).encode(), v])
    # structure of the format string
    structural = [b"", b"plain", b"%%", b"a%%b%%", b"%", b"abc%", b"%y", b"%l", b"%ld", b"%hd", b"%1$d", b"%*d", b"%.*d", b"%123d", b"%.123d",
                  b"%12.34d", b"%99.99f", b"%99.99d", b"%-+ #0d", b"%-+ #0-d", b"%-----d", b"%------d", b"%00000d", b"%000000d", b"%d%d", b"%d %s %v",
                  b"a\0%d", b"%d\0%d", b"\0", b"%\0d", b"%5\0d", b"\xff%d\xfe", b"%d" * 10, b"%s%s%s", b"%c%c", b"%.d", b"%5.d", b"%-d", b"%+d"]
    argsets = [[], [1], [1, 2], [1, 2, 3], [b"s"], [1, b"s", Kw("k")], [None], [b"a", b"b", b"c"], [65, 66]]
    for fs in structural:
        for args in argsets:
            yield ("string/format", [fs] + args)
    for v in (None, 5, Kw("fmt"), Sym("fmt"), Buf(b"%d"), (b"%d",)):
        yield ("string/format", [v, 1])
    yield ("string/format", [])
    # buffer/format: growth and self-aliasing
    m = 10 if q else 24
    for i in range(m):
        b = bytes(range(48, 48 + i))
        for fs, args in ((b"", []), (b"x", []), (b"%d", [12345]), (b"%s", [b"0123456789abcdef"]), (b"%5s|%-5s", [b"ab", b"cd"]),
                         (b"%v", [b"q\n"]), (b"%q", [(1, Arr([2]))]), (b"%j", [Struct([(Kw("a"), 1)])]), (b"%.3f", [1.5]), (b"%d", [b"bad"]),
                         (b"ab%d", [None]), (b"ab%.2j", [(1, (2, (3,)))]), (b"%d", []), (b"%s%s", [b"x" * 40, b"y" * 40])):
            yield ("buffer/format", [Buf(b), fs] + list(args))
        for fs in (b"%V", b"%v", b"%q", b"%j", b"%p", b"%m", b"%n", b"%t"):
            yield ("buffer/format", [Buf(b), fs, Alias(0)])
        if i in (0, 1, 5, 9):
            # known to read freed / unterminated memory on the unchanged tree: kept to a handful of sizes
            for fs in (b"%s", b"%5s", b"%.2s", b"<%s|%s>", b"%s%v"):
                yield ("buffer/format", [Buf(b), fs, Alias(0)] + ([Alias(0)] if fs.count(b"%") == 2 else []))
            yield ("buffer/format-at", [Buf(b), 0, b"%s", Alias(0)])
            yield ("buffer/format-at", [Buf(b), i, b"%s", Alias(0)])
        for at in range(-(i + 2), i + 3):
            for fs, args in ((b"", []), (b"XY", []), (b"%d", [7]), (b"%s", [b"0123456789"]), (b"%d", [b"bad"]), (b"ab%d", [None]),
                             (b"%v", [Alias(0)])):
                yield ("buffer/format-at", [Buf(b), at, fs] + list(args))
    for f in ("buffer/format", "buffer/format-at"):
        yield (f, [])
        yield (f, [Buf(b"ab")])
        yield (f, [Buf(b"ab"), 0])
        yield (f, [b"ab", b"%d", 1])
        yield (f, [Buf(b"ab"), None, 1])
        yield (f, [Buf(b"ab"), Buf(b"%d"), 1])
    yield from calls("buffer/format-at", [Buf(b"abc")], [None, 1.5, b"1", 2.0 ** 31], [b"x"])
    # buffer arguments to width/precision %s: the data is not NUL terminated
    for b in (b"", b"abcd", b"x" * 17):
        for fs in (b"%5s", b"%.2s"):
            yield ("string/format", [fs, Buf(b)])


def p_arity0(q):
    """zero-argument calls: several C functions read argv[0] before checking the arity"""
    for f in ("string/slice", "symbol/slice", "keyword/slice", "buffer/slice", "array/slice", "tuple/slice", "slice",
              "string/repeat", "string/bytes", "string/ascii-lower", "string/ascii-upper", "string/reverse", "string/find",
              "string/find-all", "string/has-prefix?", "string/has-suffix?", "string/replace", "string/replace-all",
              "string/split", "string/check-set", "string/join", "string/trim", "string/triml", "string/trimr",
              "buffer/new", "buffer/new-filled", "buffer/fill", "buffer/trim", "buffer/push-byte", "buffer/push-word",
              "buffer/push-string", "buffer/push", "buffer/push-at", "buffer/popn", "buffer/clear", "buffer/bit",
              "buffer/bit-set", "buffer/bit-clear", "buffer/bit-toggle", "buffer/blit", "array/new", "array/new-filled",
              "array/fill", "array/pop", "array/peek", "array/push", "array/ensure", "array/concat", "array/insert",
              "array/remove", "array/trim", "array/clear", "array/join", "tuple/type", "range"):
        yield (f, [])


# base calls for the ill-typed sweep: every argument position is replaced by every value of ILL
BASE = [
    ("string/format", [b"%d %s %v", 1, b"s", 2]), ("buffer/format", [Buf(b"ab"), b"%d %s", 1, b"s"]),
    ("buffer/format-at", [Buf(b"ab"), 1, b"%d", 1]),
    ("string/slice", [b"abc", 1, 2]), ("buffer/slice", [b"abc", 1, 2]), ("symbol/slice", [b"abc", 1, 2]),
    ("keyword/slice", [b"abc", 1, 2]), ("string/repeat", [b"ab", 2]), ("string/bytes", [b"ab"]),
    ("string/from-bytes", [97, 98]), ("buffer/from-bytes", [97, 98]), ("string/ascii-lower", [b"aB"]),
    ("string/ascii-upper", [b"aB"]), ("string/reverse", [b"ab"]), ("string/find", [b"a", b"ba", 0]),
    ("string/find-all", [b"a", b"ba", 0]), ("string/has-prefix?", [b"a", b"ab"]), ("string/has-suffix?", [b"b", b"ab"]),
    ("string/replace", [b"a", b"x", b"ba"]), ("string/replace-all", [b"a", b"x", b"ba"]),
    ("string/split", [b"a", b"bab", 0, 2]), ("string/check-set", [b"ab", b"ba"]), ("string/join", [(b"a", b"b"), b","]),
    ("string/trim", [b" a ", b" "]), ("string/triml", [b" a ", b" "]), ("string/trimr", [b" a ", b" "]),
    ("buffer/new", [3]), ("buffer/new-filled", [2, 97]), ("buffer/fill", [Buf(b"ab"), 97]), ("buffer/trim", [Buf(b"ab")]),
    ("buffer/push-byte", [Buf(b"ab"), 97]), ("buffer/push-word", [Buf(b"ab"), 97]), ("buffer/push-string", [Buf(b"ab"), b"c"]),
    ("buffer/push", [Buf(b"ab"), b"c", 100]), ("buffer/push-at", [Buf(b"ab"), 1, b"c"]),
    ("buffer/push-uint16", [Buf(b"ab"), Kw("le"), 1]), ("buffer/push-uint32", [Buf(b"ab"), Kw("le"), 1]),
    ("buffer/push-uint64", [Buf(b"ab"), Kw("le"), 1]), ("buffer/push-float32", [Buf(b"ab"), Kw("le"), 1]),
    ("buffer/push-float64", [Buf(b"ab"), Kw("le"), 1]), ("buffer/popn", [Buf(b"ab"), 1]), ("buffer/clear", [Buf(b"ab")]),
    ("buffer/bit", [Buf(b"ab"), 1]), ("buffer/bit-set", [Buf(b"ab"), 1]), ("buffer/bit-clear", [Buf(b"ab"), 1]),
    ("buffer/bit-toggle", [Buf(b"ab"), 1]), ("buffer/blit", [Buf(b"ab"), b"xyz", 1, 1, 2]),
    ("array/new", [3]), ("array/new-filled", [2, 7]), ("array/fill", [Arr([1, 2]), 7]), ("array/pop", [Arr([1, 2])]),
    ("array/peek", [Arr([1, 2])]), ("array/push", [Arr([1, 2]), 3]), ("array/ensure", [Arr([1, 2]), 8, 2]),
    ("array/slice", [(1, 2, 3), 1, 2]), ("tuple/slice", [(1, 2, 3), 1, 2]), ("array/concat", [Arr([1, 2]), (3,)]),
    ("array/join", [Arr([1, 2]), (3,)]), ("array/insert", [Arr([1, 2]), 1, 9]), ("array/remove", [Arr([1, 2]), 0, 1]),
    ("array/trim", [Arr([1, 2])]), ("array/clear", [Arr([1, 2])]), ("tuple/join", [(1,), (2,)]), ("tuple/type", [(1,)]),
    ("slice", [(1, 2, 3), 1, 2]), ("range", [0, 3, 1]),
]

ILLV = [None, True, 1.5, -1, 2.0 ** 31, -2.0 ** 31 - 1, 2.0 ** 53, float("nan"), float("inf"), Kw("k"), Sym("y"), b"s",
        Buf(b"b"), (1, 2), Arr([1]), Tab([(1, 2)]), Struct([(1, 2)]), fn("inc")]


def p_ill_typed(q):
    for f, base in BASE:
        for i in range(len(base)):
            for v in ILLV:
                args = [M.clone(x) for x in base]
                args[i] = M.clone(v) if not isinstance(v, Fn) else v
                yield (f, args)
        for v in ILLV:            # one argument too many
            yield (f, [M.clone(x) for x in base] + [v])


PARTS = [
    # name, generator, variants
    ("find", p_find, ("fast", "asan")),
    ("find-kmp", p_find_kmp, ("fast",)),
    ("find-types", p_find_types, ("fast",)),
    ("replace", p_replace, ("fast", "asan")),
    ("split", p_split, ("fast", "asan")),
    ("slice-bytes", p_slice, ("fast", "asan")),
    ("trim", p_trim, ("fast",)),
    ("bytes-misc", p_bytes_misc, ("fast",)),
    ("buffer-push", p_buffer_push, ("fast", "asan")),
    ("buffer-push-at", p_buffer_push_at, ("fast", "asan")),
    ("buffer-fixed-width", p_buffer_fixed, ("fast", "asan")),
    ("buffer-misc-bits", p_buffer_misc, ("fast", "asan")),
    ("buffer-blit", p_buffer_blit, ("fast", "asan")),
    ("array-slice", p_array_slice, ("fast", "asan")),
    ("array-insert-remove", p_array_insert_remove, ("fast", "asan")),
    ("array-concat-push", p_array_concat, ("fast", "asan")),
    ("format", p_format, ("fast", "asan")),
    ("ill-typed", p_ill_typed, ("fast", "asan")),
    ("arity-0", p_arity0, ("fast", "asan", "asan_dbg")),
    ("seq-map", p_seq_map, ("fast",)),
    ("seq-reduce", p_seq_reduce, ("fast",)),
    ("seq-take-drop", p_seq_take, ("fast", "asan")),
    ("seq-partition", p_seq_partition, ("fast",)),
    ("seq-range", p_seq_range, ("fast",)),
    ("seq-range-float", p_seq_range_float, ("fast",)),
    ("seq-dict", p_seq_dict, ("fast",)),
    ("seq-flatten", p_seq_flatten, ("fast",)),
    ("seq-sort-small", p_seq_sort_small, ("fast",)),
]


# ---------------------------------------------------------------------------
# sort: whole families enumerated inside janet (driver_sort.janet)

def sort_items(q):
    """-> list of (label, item text, expected number of cases)"""
    out = []
    nseq = 7 if q else 9
    nperm = 7 if q else 9
    nrank = 5 if q else 7
    ntag = 6 if q else 8

    def fact(n):
        return math.factorial(n)

    def split_seqs(family, variant, cmp_, n, k, depth):
        d = min(depth, n)
        for pre in itertools.product(range(k), repeat=d):
            txt = "(%s :%s :%s %d %d (%s))" % (family, variant, cmp_, n, k, " ".join(map(str, pre)))
            out.append(("%s/%s/%s n=%d" % (family, variant, cmp_, n), txt, k ** (n - d)))

    combos = [("sort", c) for c in ("default", "lt", "gt", "lt-fn", "gt-fn", "mod2", "half")] + \
             [("sorted", c) for c in ("default", "gt-fn", "mod2")] + \
             [("sort-by", c) for c in ("identity", "neg", "mod2", "half")] + \
             [("sorted-by", c) for c in ("neg", "mod2")] + \
             [("sort-buf", c) for c in ("default", "gt")]
    for variant, c in combos:
        for n in range(0, nseq + 1):
            split_seqs("seqs", variant, c, n, 4, 0 if n < 5 else (2 if n < 8 else 3))
    for variant, c in [("sort", "first"), ("sorted", "first")]:
        for n in range(0, ntag + 1):
            split_seqs("tagged", variant, c, n, 3, 0 if n < 6 else 2)
    pcombos = [("sort", c) for c in ("default", "lt", "gt", "lt-fn", "gt-fn", "mod2", "half")] + \
              [("sorted", "lt-fn"), ("sort-by", "neg"), ("sort-by", "mod2"), ("sorted-by", "half")]
    for variant, c in pcombos:
        for n in range(0, nperm + 1):
            d = 0 if n < 6 else (1 if n < 8 else 2)
            for pre in itertools.permutations(range(n), d):
                txt = "(perms :%s :%s %d 0 (%s))" % (variant, c, n, " ".join(map(str, pre)))
                out.append(("perms/%s/%s n=%d" % (variant, c, n), txt, fact(n - d)))
    for variant in ("sort", "sorted"):
        for n in range(0, nrank + 1):
            d = 0 if n < 4 else 2
            for pre in itertools.product(range(4), repeat=d):
                txt = "(ranks :%s :rank %d 4 (%s))" % (variant, n, " ".join(map(str, pre)))
                out.append(("ranks/%s k=4 n=%d" % (variant, n), txt, 4 ** 4 * 4 ** (n - d)))
        for n in range(0, nseq + 1):
            d = 0 if n < 6 else 2
            for pre in itertools.product(range(3), repeat=d):
                txt = "(ranks :%s :rank %d 3 (%s))" % (variant, n, " ".join(map(str, pre)))
                out.append(("ranks/%s k=3 n=%d" % (variant, n), txt, 3 ** 3 * 3 ** (n - d)))
    return out


def run_sort(chk, r):
    import os
    import re
    from core import run_batch, HarnessError
    part = "sort-families"
    if not r.wanted(part):
        return
    t0 = chk.elapsed()
    items = sort_items(chk.quick)
    # cheapest first so that a deadline cuts between bounds
    res = run_batch("fast", os.path.join(os.path.dirname(os.path.abspath(__file__)), "driver_sort.janet"),
                    [t for _, t, _ in items], chunk=1, timeout=300 if chk.quick else 900)
    total = 0
    for (label, txt, want), (status, text) in zip(items, res):
        if status != "OK":
            if status == "ERR":
                raise HarnessError("sort driver: %s: %s" % (txt, text))
            chk.violation(sig="sort:%s:%s" % (label.split(" ")[0], status.lower()), what="%s %s %s" % (txt, status, text[-400:]),
                          replay_text="# family item for props/C17/driver_sort.janet: %s\n" % txt)
            continue
        m = re.match(r"cases=(\d+) fails=(\d+) first=(.*)$", text)
        if not m:
            raise HarnessError("sort driver output: %r" % text)
        cases, fails, first = int(m.group(1)), int(m.group(2)), m.group(3)
        if cases != want:
            raise HarnessError("sort driver enumerated %d cases for %s, expected %d" % (cases, txt, want))
        total += cases
        chk.add(evaluations=cases, transitions=cases, states=cases)
        chk.part(part + ":" + label.split(" n=")[0], cases=cases)
        chk.outcome("sort " + label.split(" n=")[0] + (" ok" if fails == 0 else " FAIL"))
        if fails:
            fam, variant, cmp_ = label.split(" ")[0].split("/")[:3] if label.count("/") >= 2 else (label.split("/")[0], label.split("/")[1].split(" ")[0], "rank")
            fnname = {"sort-buf": "sort"}.get(variant, variant)
            rp = ["# %d of %d inputs of family %s fail: the result must be an ordered permutation of the input;" % (fails, cases, txt),
                  "# sort/sort-by return their argument, sorted/sorted-by a new array and leave the input unchanged.",
                  "# first failing input (canonical form; for `ranks` it is [rank-vector input], comparator (fn [a b] (< (r a) (r b)))):",
                  "#   " + first, FNS_SRC_HOLDER[0],
                  "(def input (eval-string (string/replace-all \"#0=\" \"\" ``%s``)))" % re.sub(r"#\d+=", "", first).replace("(", "[").replace(")", "]"),
                  "(pp input)",
                  {"ranks": "(def r (in input 0)) (def xs (array ;(in input 1))) (pp (%s xs (fn [a b] (< (r a) (r b)))))" % fnname,
                   }.get(fam, "(def xs (array ;input)) (printf \"%%q -> %%q\" input (protect (%s))) " % sort_call(fnname, variant, cmp_))]
            chk.violation(sig="sort:%s/%s/%s" % (fam, variant, cmp_), what="%s: %d of %d inputs not sorted correctly, first %s" % (txt, fails, cases, first),
                          replay_text="\n".join(rp) + "\n")
    chk.part(part, cases=total, items=len(items), wall_s=round(chk.elapsed() - t0, 1))
    import sys
    sys.stderr.write("  part %-28s %8d cases  %6.1fs\n" % (part, total, chk.elapsed() - t0))


FNS_SRC_HOLDER = [""]

CMP_SRC = {"default": "", "lt": " <", "gt": " >", "lt-fn": " (fn [a b] (< a b))", "gt-fn": " (fn [a b] (> a b))",
           "mod2": " (fns 'mod2<)", "half": " (fns 'half>)", "first": " (fns 'first<)"}
KEY_SRC = {"identity": "identity", "neg": "(fns 'neg)", "mod2": "(fns 'mod2)", "half": "(fns 'half)"}


def sort_call(fnname, variant, cmp_):
    if variant in ("sort-by", "sorted-by"):
        return "%s %s xs" % (fnname, KEY_SRC[cmp_])
    if variant == "sort-buf":
        return "sort (buffer/from-bytes ;xs)%s" % CMP_SRC[cmp_]
    return "%s xs%s" % (fnname, CMP_SRC[cmp_])


def run_all(chk, r):
    q = chk.quick
    for name, gen, variants in PARTS:
        if name == "format":
            # the sort families come before the long tail of parts so that a loaded machine still runs them
            if not chk.out_of_time(0.9):
                run_sort(chk, r)
            else:
                chk.cap("sort families not run: out of time")
        if not r.wanted(name):
            continue
        if chk.out_of_time(0.9):
            chk.cap("part %s not run: out of time" % name)
            continue
        r.run(name, gen(q), variants=variants)


def bound_text(chk):
    if chk.quick:
        return ("byte strings <=3 (kmp: patterns <=4, texts <=7), buffers/arrays 0..4-6 + growth grids to 18, sequences <=4 over {0,1,2}, "
                "sort: all sequences <=7 over 4 letters, all permutations of 0..6, all 256 strict weak orders on 4 letters x sequences <=5")
    return ("byte strings <=4-5 (kmp: patterns <=4, texts <=9), buffers/arrays 0..8-12 + growth grids to 40-66, sequences <=5-6 over {0,1,2}, "
            "sort: all sequences <=9 over 4 letters, all permutations of 0..8, all 256 strict weak orders on 4 letters x sequences <=7")
