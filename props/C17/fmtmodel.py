"""Reference for string/format, buffer/format and buffer/format-at.

The docstring defines the directives by reference to C's snprintf ("Similar to C's snprintf, but
specialized for operating with Janet values"), so the integer conversions are re-implemented here from
the C standard (7.21.6.1), the floating conversions use Python's own correctly rounded implementation
of the same rules, and %v %V %q %p %m %n %j %t are defined by small printers for the value universe
the check enumerates (scalars and small nested containers, where every pretty variant is one line).
Flag/conversion pairs the C standard leaves undefined (`#` with d i u c s, `0` with c s) are not predicted.
"""
import math

from model import (define, JErr, Skip, Buf, Arr, Kw, Sym, BTuple, Tab, Struct, Fn, U64, S64, is_num, is_bytes, getint,
                   getbytes, getbuf, arity, finite_int, jtype, endrel)

MAX_ITEM = 256


class JErrAnyState(JErr):
    """raises, and the amount of partial output left in a destination buffer is not specified"""


def number_text(x):
    """(describe x) / (string x) of a number"""
    x = float(x)
    if x == 0:
        return "0"
    if x != x:
        raise Skip("nan text")
    if abs(x) == math.inf:
        return "inf" if x > 0 else "-inf"
    if x == math.floor(x) and abs(x) <= 2 ** 53:
        return "%.0f" % x
    return "%.15g" % x


def escape(b):
    out = ['"']
    table = {34: '\\"', 10: "\\n", 13: "\\r", 0: "\\0", 12: "\\f", 11: "\\v", 7: "\\a", 8: "\\b", 27: "\\e", 92: "\\\\", 9: "\\t"}
    for c in b:
        if c in table:
            out.append(table[c])
        elif c < 32 or c > 126:
            out.append("\\x%02X" % c)
        else:
            out.append(chr(c))
    out.append('"')
    return "".join(out)


def describe(x):
    """%v for scalars (containers print their address and are not predicted)"""
    t = jtype(x)
    if t == "nil":
        return "nil"
    if t == "boolean":
        return "true" if x else "false"
    if t == "number":
        return number_text(x)
    if t == "string":
        return escape(x)
    if t == "buffer":
        return "@" + escape(x.b)
    if t == "keyword":
        return ":" + str(x)
    if t == "symbol":
        return str(x)
    if t == "core/s64":
        return "<core/s64 %d>" % x.v
    if t == "core/u64":
        return "<core/u64 %d>" % x.v
    raise Skip("describe of %s prints an address" % t)


def to_string(x):
    """%V"""
    t = jtype(x)
    if t == "nil":
        return b""
    if t in ("string", "buffer", "keyword", "symbol"):
        return getbytes(x)
    if t in ("core/s64", "core/u64"):
        return b"%d" % x.v
    return describe(x).encode("latin-1")


SYMCHARS = set(b"abcdefghijklmnopqrstuvwxyzABCDEFGHIJKLMNOPQRSTUVWXYZ0123456789!$%&*+-./:<?=>@^_")


def pretty(x, depth, jdn=False, level=1):
    t = jtype(x)
    if jdn and depth - level + 1 <= 0:
        raise JErrAnyState("jdn: too deep")
    if t in ("tuple", "array", "struct", "table"):
        op, cl = {"tuple": ("(", ")"), "array": ("@[", "]"), "struct": ("{", "}"), "table": ("@{", "}")}[t]
        if t == "tuple" and isinstance(x, BTuple):
            op, cl = "[", "]"
        if not jdn and level >= depth:
            return op + "..." + cl
        if t in ("tuple", "array"):
            if len(x) >= 10:
                raise Skip("long sequences are wrapped / truncated")
            return op + " ".join(pretty(v, depth, jdn, level + 1) for v in x) + cl
        if len(x.kv) >= 2:
            ks = [k for k, v in x.kv]
            if jdn:
                raise Skip("jdn prints dictionaries in hash order")
            if not all(isinstance(k, Kw) for k in ks):
                raise Skip("key order of mixed keys")
        if len(x.kv) >= 4:
            raise Skip("large dictionaries are laid out on several lines")
        items = sorted(x.kv, key=lambda kv: str(kv[0]))
        return op + " ".join(pretty(k, depth, jdn, level + 1) + " " + pretty(v, depth, jdn, level + 1) for k, v in items) + cl
    if jdn:
        if t == "number":
            v = float(x)
            if v != v or abs(v) == math.inf:
                raise JErrAnyState("jdn: nan/inf")
            if v == 0:
                raise Skip("jdn of zero")
            return "%.17g" % v
        if t in ("keyword", "symbol"):
            b = str(x).encode("latin-1")
            if not all(c in SYMCHARS for c in b) or (t == "symbol" and b and 48 <= b[0] <= 57):
                raise JErrAnyState("jdn: bad symbol characters")
        if t in ("core/s64", "core/u64", "function"):
            raise JErrAnyState("jdn: not representable")
    if t == "string" and len(x) > 30 or t == "buffer" and len(x.b) > 30:
        raise Skip("long strings may be truncated")
    return describe(x)


# ---------------------------------------------------------------------------
# C conversions

def fmt_integer(v, conv, flags, width, prec):
    neg = v < 0
    a = -v if neg else v
    if conv in "di" or conv == "u":
        digits = str(a)
    elif conv == "x":
        digits = "%x" % a
    elif conv == "X":
        digits = "%X" % a
    else:
        digits = "%o" % a
    if prec is not None:
        if prec == 0 and a == 0:
            digits = ""
        digits = digits.rjust(prec, "0")
    prefix = ""
    if conv in "di":
        prefix = "-" if neg else ("+" if "+" in flags else (" " if " " in flags else ""))
    if "#" in flags:
        if conv in "xX" and a != 0:
            prefix = "0" + conv
        elif conv == "o" and not digits.startswith("0"):
            digits = "0" + digits
    body = prefix + digits
    if len(body) >= width:
        return body
    if "-" in flags:
        return body.ljust(width)
    if "0" in flags and prec is None:
        return prefix + digits.rjust(width - len(prefix), "0")
    return body.rjust(width)


def fmt_float(v, conv, flags, width, prec):
    spec = "%" + "".join(sorted(set(flags))) + (str(width) if width else "") + ("." + str(prec) if prec is not None else "") + conv
    v = float(v)
    if v != v:
        raise Skip("nan sign")
    if abs(v) == math.inf:
        spec = spec.replace("0", "", 1) if "0" in flags else spec     # C11 7.21.6.1: no zero padding for inf/nan
    elif "#" in flags and conv in "gG" and v != 0:
        # glibc prints "1.e+06" for ("%#g", 999999.5) where C11 asks for "1.00000e+06": a libc matter, not predicted
        P = 6 if prec is None else max(prec, 1)
        if int(("%.*e" % (P - 1, v)).split("e")[1]) != int(("%.17e" % v).split("e")[1]):
            raise Skip("libc: %#g when rounding carries into the next decade")
    return spec % v


def fmt_str(b, flags, width, prec):
    if prec is not None:
        b = b[:prec]
    if len(b) >= width:
        return b
    return b.ljust(width) if "-" in flags else b.rjust(width)


def to_s64(x):
    if isinstance(x, (S64, U64)):
        v = x.v & (2 ** 64 - 1)
        return v - 2 ** 64 if v >= 2 ** 63 else v
    if is_num(x):
        if not finite_int(x) or abs(x) > 2 ** 53:
            raise JErr("not an int64")
        return int(x)
    if isinstance(x, bytes):
        raise Skip("strings are parsed as integers (C14 territory)")
    raise JErr("not an int64")


def to_u64(x):
    if isinstance(x, (S64, U64)):
        return x.v & (2 ** 64 - 1)
    if is_num(x):
        if not finite_int(x) or x < 0 or x > 2 ** 53:
            raise JErr("not a uint64")
        return int(x)
    if isinstance(x, bytes):
        raise Skip("strings are parsed as integers (C14 territory)")
    raise JErr("not a uint64")


def run_format(out, fmt, args):
    """append the formatted text to bytearray `out`; args is the list of values"""
    fmt = getbytes(fmt)
    z = fmt.find(b"\0")
    if z >= 0:
        fmt = fmt[:z]                    # the format is a C string
    i = 0
    argi = 0
    n = len(fmt)
    while i < n:
        c = fmt[i]
        if c != 37:
            out.append(c)
            i += 1
            continue
        i += 1
        if i < n and fmt[i] == 37:
            out.append(37)
            i += 1
            continue
        if argi >= len(args):
            raise JErr("not enough values for format")
        arg = args[argi]
        argi += 1
        j = i
        while j < n and fmt[j] in b"-+ #0":
            j += 1
        flags = fmt[i:j].decode()
        if len(flags) >= 6:
            raise JErr("repeated flags")
        width = ""
        while j < n and len(width) < 2 and 48 <= fmt[j] <= 57:
            width += chr(fmt[j])
            j += 1
        prec = None
        if j < n and fmt[j] == 46:
            j += 1
            prec = ""
            while j < n and len(prec) < 2 and 48 <= fmt[j] <= 57:
                prec += chr(fmt[j])
                j += 1
        if j < n and 48 <= fmt[j] <= 57:
            raise JErr("width or precision too long")
        if j >= n:
            raise JErr("format ends inside a directive")
        conv = chr(fmt[j])
        i = j + 1
        w = int(width) if width else 0
        p = None if prec is None else (int(prec) if prec else 0)
        plain = not flags and not width and prec is None
        item = None
        if conv == "c":
            v = getint(arg)
            if "#" in flags or "0" in flags:
                raise Skip("undefined flag for %c")
            item = fmt_str(bytes([v & 0xFF]), flags, w, None)
        elif conv in "di":
            v = to_s64(arg)
            if "#" in flags:
                raise Skip("undefined flag for %d")
            item = fmt_integer(v, conv, flags, w, p).encode()
        elif conv in "xXou":
            v = to_u64(arg)
            if "#" in flags and conv == "u":
                raise Skip("undefined flag for %u")
            item = fmt_integer(v, conv, flags, w, p).encode()
        elif conv in "eEfgG":
            if not is_num(arg):
                raise JErr("expected number")
            item = fmt_float(arg, conv, flags, w, p).encode()
        elif conv in "aAF":
            if not is_num(arg):
                raise JErr("expected number")
            raise Skip("%a / %F not modelled")
        elif conv == "s":
            b = getbytes(arg)
            if plain:
                out += b
            else:
                if isinstance(arg, Buf):
                    raise Skip("buffers are not NUL terminated")
                if b"\0" in b:
                    raise JErr("string contains zeros")
                if prec is None and len(b) >= 100:
                    raise JErr("too long without precision")
                if "#" in flags or "0" in flags:
                    raise Skip("undefined flag for %s")
                item = fmt_str(b, flags, w, p)
        elif conv == "V":
            out += to_string(arg)
        elif conv == "v":
            out += describe(arg).encode("latin-1")
        elif conv == "t":
            out += jtype(arg).encode()
        elif conv in "pqmn":
            out += pretty(arg, p if p and p >= 1 else 1024).encode("latin-1")
        elif conv in "PQMN":
            raise Skip("coloured output not modelled")
        elif conv == "j":
            out += pretty(arg, p if p and p >= 1 else 1024, jdn=True).encode("latin-1")
        else:
            raise JErr("invalid conversion")
        if item is not None:
            if len(item) >= MAX_ITEM:
                raise JErr("format buffer overflow")
            out += item
    return out


@define("string/format")
def string_format(*a):
    arity(a, 1, -1)
    if not isinstance(a[0], bytes):
        raise JErr("expected string")
    return bytes(run_format(bytearray(), a[0], list(a[1:])))


def _snapshot(args, dest):
    """a destination buffer passed as a value argument is formatted with the contents it has at the call"""
    return [Buf(x.b) if x is dest else x for x in args]


@define("buffer/format")
def buffer_format(*a):
    arity(a, 2, -1)
    b = getbuf(a[0])
    if not isinstance(a[1], bytes):
        raise JErr("expected string")
    run_format(b.b, a[1], _snapshot(a[2:], b))
    return b


@define("buffer/format-at")
def buffer_format_at(*a):
    arity(a, 2, -1)
    b = getbuf(a[0])
    at = endrel(a[1], len(b.b))
    if len(a) < 3 or not isinstance(a[2], bytes):
        raise JErr("expected string")
    tmp = bytearray()
    try:
        run_format(tmp, a[2], _snapshot(a[3:], b))
    finally:
        b.b[at:at + len(tmp)] = tmp
    return b
