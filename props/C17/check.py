#!/usr/bin/env python3
"""C17 -- string, buffer, array, tuple and generic sequence library functions vs. reference definitions.

Bounded-exhaustive differential check (kernel K1 of DESIGN.md): every part enumerates a stated finite
product of arguments, applies the real function inside vjanet to fresh copies of the arguments and
compares (result | raises, identity of the result, state of every argument after the call) with an
independent reference definition in model.py.  sort/sorted/sort-by/sorted-by and the formatter have
their own parts (driver_sort.janet, fmtmodel.py).
"""
import itertools
import os
import sys
import threading

HERE = os.path.dirname(os.path.abspath(__file__))
sys.path.insert(0, os.path.join(HERE, "..", "..", "engine", "mc"))
sys.path.insert(0, HERE)
from core import Check, run_batch, run_script, HarnessError, harness_guard, vjanet  # noqa: E402
import model as M  # noqa: E402
from model import Buf, Arr, Kw, Sym, BTuple, Tab, Struct, Fn, Alias, U64, S64, JErr, Skip  # noqa: E402
import seqmodel  # noqa: E402,F401  (registers the boot.janet functions in M.FUNCS)
import fmtmodel  # noqa: E402,F401  (registers string/format, buffer/format, buffer/format-at)
import parts as P  # noqa: E402

DRIVER = os.path.join(HERE, "driver.janet")
FNS_SRC = open(os.path.join(HERE, "fns.janet")).read()


# ---------------------------------------------------------------------------
# one item = (fname, [args])

def item_text(it):
    fname, args = it
    return "(" + " ".join([fname] + [M.emit(a) for a in args]) + ")"


def arg_canon(a):
    if isinstance(a, Alias):
        return "$%d" % a.k
    if isinstance(a, Fn):
        return "fn"
    return M.canon(a)


def materialise(args):
    out = []
    for a in args:
        if isinstance(a, Alias):
            out.append(out[a.k])
        else:
            out.append(M.clone(a))
    return out


def expect(it):
    """-> ('R', line) | ('E', set(lines)) | ('S', None)"""
    fname, args = it
    f = M.FUNCS[fname[2:] if fname.startswith("u/") and fname not in M.FUNCS else fname]
    live = materialise(args)
    orig = "\t".join(arg_canon(a) for a in args)

    def state():
        return "\t".join(arg_canon(a) if isinstance(a, (Alias, Fn)) else M.canon(v) for a, v in zip(args, live))
    try:
        res = f(*live)
    except JErr as e:
        if isinstance(e, fmtmodel.JErrAnyState):
            return ("E", None)
        try:
            return ("E", {"E\t\t-1" + ("\t" + s if args else "") for s in (state(), orig)})
        except Skip:
            return ("S", None)
    except Skip:
        return ("S", None)
    try:
        al = -1
        if isinstance(res, (Buf, Arr, Tab)):
            for i, v in enumerate(live):
                if v is res:
                    al = i
                    break
        return ("R", "R\t%s\t%d%s" % (M.canon(res), al, ("\t" + state()) if args else ""))
    except Skip:
        return ("S", None)


def replay_emit(x, top=True):
    if isinstance(x, Fn):
        return "(fns '%s)" % x.name if ("'%s " % x.name) in FNS_SRC else x.name
    if isinstance(x, Sym):
        return "'" + str(x)
    if isinstance(x, U64):
        return '(int/u64 "%d")' % x.v
    if isinstance(x, S64):
        return '(int/s64 "%d")' % x.v
    if isinstance(x, tuple) and not isinstance(x, BTuple):
        return "'" + M.emit(x, False) if top else M.emit(x, False)
    if isinstance(x, Arr):
        return "@[" + " ".join(replay_emit(v, False) if not isinstance(v, (tuple, Sym)) else "'" + M.emit(v, False) for v in x) + "]"
    return M.emit(x, False)


def replay_text(it, exp, got, variant="fast"):
    fname, args = it
    real = fname[2:] if fname.startswith("u/") else fname
    lines = [FNS_SRC, "", "(def args @[])"]
    for a in args:
        if isinstance(a, Alias):
            lines.append("(array/push args (in args %d))   # the same object as argument %d" % (a.k, a.k))
        else:
            lines.append("(array/push args %s)" % replay_emit(a))
    if variant != "fast":
        lines.append("# observed with the %s build after trimming capacities to the lengths (capacity == count):" % variant)
        lines.append("(each a args (case (type a) :array (array/trim a) :buffer (buffer/trim a)))")
    lines.append("(def r (protect (%s ;args)))" % real)
    lines.append('(printf "%s -> %%q" r)' % real.replace("%", "%%"))
    lines.append('(printf "arguments after the call: %q" args)')
    lines.append("# reference: " + (exp if isinstance(exp, str) else " or ".join(sorted(exp))).replace("\t", " | "))
    lines.append("# observed : " + str(got).replace("\t", " | "))
    lines.append("# fields   : R|E (returns|raises) | canonical result | index of the argument identical to the result | arguments after the call")
    return "\n".join(lines) + "\n"


def tags(it):
    fname, args = it
    t = []

    def walk(x, depth):
        if isinstance(x, Alias):
            t.append("alias")
        elif x is None and depth > 0:
            t.append("nil-elem")
        elif fname == "range" and isinstance(x, float) and (x != x or x in (float("inf"), float("-inf"))):
            t.append("nonfinite")
        elif fname == "range" and isinstance(x, float) and x != int(x):
            t.append("frac")
        elif isinstance(x, (tuple, Arr)):
            for v in x:
                walk(v, depth + 1)
    for a in args:
        walk(a, 0)
    if "nonfinite" in t:
        t = [x for x in t if x != "frac"]
    return sorted(set(t))


def crash_summary(text):
    """the informative lines of a sanitizer / abort report"""
    keep = []
    for line in text.replace("\\n", "\n").split("\n"):
        l = line.strip()
        if "ERROR: AddressSanitizer" in l or "runtime error" in l or "janet internal error" in l or "out of memory" in l or l.startswith("rc="):
            keep.append(l[:240])
        elif l.startswith("#") and len(keep) < 7 and (" in " in l) and "asan" not in l.split(" in ")[1][:8]:
            keep.append(l[:160])
    return " / ".join(keep[:7]) if keep else text[-300:]


def rerun_single(variant, text, trim):
    """full stderr of one crashing item (the batch runner keeps only its tail)"""
    import shutil
    from core import run, mktmp
    d = mktmp()
    try:
        ip, op = os.path.join(d, "items.jdn"), os.path.join(d, "out.txt")
        with open(ip, "w") as f:
            f.write(text + "\n")
        r = run(vjanet(variant), [DRIVER, ip, op], env={"C17_TRIM": "1" if trim else "0"}, timeout=120)
        return "rc=%s\n%s" % (r.rc, r.err.decode(errors="replace"))
    finally:
        shutil.rmtree(d, ignore_errors=True)


def crash_kind(full):
    import re
    if "janet internal error" in full:
        return "abort"
    if "out of memory" in full:
        return "oom-exit"
    m = re.search(r"AddressSanitizer: ([A-Za-z-]+)", full)
    if m:
        return m.group(1)
    m = re.search(r"rc=(-?\d+)", full)
    return "rc" + (m.group(1) if m else "?")


FORMAT_FAMILY = ("string/format", "buffer/format", "buffer/format-at")   # one shared implementation (janet_buffer_format)


def make_sig(fname, bad, tg):
    """stable signature: function (or family), kind of disagreement, class of the minimal failing case"""
    if bad == "crash":
        tg = [t for t in tg if t not in ("alias", "frac", "nonfinite", "nil-elem")]
    if fname in FORMAT_FAMILY and bad in ("crash", "value"):
        fname = "format"
    return ":".join([fname, bad] + tg)


def classify(exp, status, text):
    """-> None if fine, else kind of disagreement"""
    kind, val = exp
    if status in ("CRASH", "TIMEOUT"):
        return "crash" if status == "CRASH" else "timeout"
    if status == "ERR":
        # the driver's own code around the call failed (it is a fixed program that never does on the unchanged tree:
        # typically data damaged by an earlier call of the same process)
        return "driver-error"
    if kind == "S":
        return None
    if kind == "R":
        if text == val:
            return None
        if text.startswith("E\t"):
            return "raises-but-defined"
        a, b = text.split("\t"), val.split("\t")
        if a[1] != b[1]:
            return "value"
        if a[2] != b[2]:
            return "result-identity"
        return "input-modified"
    if val is None and text.startswith("E\t"):
        return None
    if val is not None and text in val:
        return None
    if text.startswith("R\t"):
        return "returns-but-must-raise"
    return "state-after-error"


class Runner:
    def __init__(self, chk):
        self.chk = chk
        self.only = chk.args.only

    def wanted(self, part):
        return not self.only or any(part.startswith(o) or o in part for o in self.only.split(","))

    def run(self, part, items, variants=("fast",), slab=80000, chunk=2500):
        """items: iterable of (fname, args). Every variant must agree with the model."""
        if not self.wanted(part):
            return
        chk = self.chk
        t0 = chk.elapsed()
        n = 0
        nskip = 0
        nerr = 0
        it = iter(items)
        first = last = None
        while True:
            block = list(itertools.islice(it, slab))
            if not block:
                break
            texts = [item_text(x) for x in block]
            results = {}

            def work(v):
                env = {"C17_TRIM": "1"} if v != "fast" else {"C17_TRIM": "0"}
                # run_batch allows timeout * (1 + items/200) per process: a chunk normally takes 1-10 s
                results[v] = run_batch(v, DRIVER, texts, env=env, chunk=chunk if v == "fast" else max(200, chunk // 4),
                                       timeout=20 if v == "fast" else 60)
            ths = [threading.Thread(target=work, args=(v,)) for v in variants]
            for th in ths:
                th.start()
            try:
                exps = [expect(x) for x in block]
            finally:
                for th in ths:
                    th.join()
            for v in variants:
                if v not in results:
                    raise HarnessError("batch for variant %s did not complete" % v)
                for x, e, (status, text) in zip(block, exps, results[v]):
                    bad = classify(e, status, text)
                    if e[0] == "E":
                        nerr += 1
                    elif e[0] == "S":
                        nskip += 1
                    if status == "OK":
                        chk.outcome(text.split("\t", 3)[0] + text.split("\t", 3)[1][:60], nontrivial=text.startswith("R"))
                    if bad:
                        tg = tags(x)
                        if bad == "crash":
                            if "janet internal error" not in text and "out of memory" not in text:
                                text = rerun_single(v, item_text(x), v != "fast")
                            tg = [crash_kind(text)] + tg
                        sig = make_sig(x[0], bad, tg)
                        what = "%s [%s, part %s] %s: reference %s, observed %s" % (
                            item_text(x), v, part, bad,
                            "(no prediction)" if e[0] == "S" else (e[1] if e[0] == "R" else " or ".join(sorted(e[1] or ["E (any state)"]))),
                            text if status == "OK" else status + " " + crash_summary(text))
                        chk.violation(sig=sig, what=what.replace("\t", " | "),
                                      replay_text=replay_text(x, (e[1] or "raises") if e[0] != "S" else "no crash", text if status == "OK" else status, v),
                                      replay_cmd="janet <this file>   (crash classes: build janet with -fsanitize=address)")
            n += len(block)
            if first is None:
                first = texts[0]
            last = texts[-1]
            chk.add(evaluations=len(block) * len(variants), transitions=len(block) * len(variants), states=len(block))
        chk.part(part, cases=n, variants="+".join(variants), expected_errors=nerr // max(1, len(variants)),
                 unpredicted=nskip // max(1, len(variants)), wall_s=round(chk.elapsed() - t0, 1))
        if first:
            chk.sample({"part": part, "first": first, "last": last})
        sys.stderr.write("  part %-28s %8d cases  %6.1fs\n" % (part, n, chk.elapsed() - t0))


def main():
    chk = Check("C17")
    chk.rule("each part is the full product of its argument alphabets (byte strings over {a,b,NUL,0xff} up to a "
             "length bound, patterns incl. empty/overlapping, indices -(n+2)..n+2 and nil, self-aliased arguments, "
             "sequences over {0,1,2} up to a length bound as array/tuple/string/buffer); a case is one call on fresh "
             "copies of its arguments; compared: raises-vs-returns, canonical result, identity of the result, state of "
             "every argument after the call; memory-safety families also under ASan with capacity trimmed to length")
    chk.assume("the canonical printer of engine/drv/prelude.janet and the Janet parser are correct for the small values used")
    chk.assume("reference definitions are restated from the docstrings; conventions where they are silent are listed in NOTES.md")
    chk.assume("error message texts are not compared")
    if chk.args.replay:
        # --replay <file>: run a replay file with the real interpreter (fast and asan builds) and show what it prints
        for v in ("fast", "asan"):
            res = run_script(v, open(chk.args.replay).read(), timeout=120)
            print("--- %s build: rc=%s" % (v, res.rc))
            sys.stdout.write(res.out.decode(errors="replace"))
            sys.stdout.write(crash_summary(res.err.decode(errors="replace")) + "\n" if res.err else "")
        sys.exit(0)
    r = Runner(chk)
    P.FNS_SRC_HOLDER[0] = FNS_SRC
    P.run_all(chk, r)
    chk.cov["bound_completed"] = P.bound_text(chk)
    chk.finish()


if __name__ == "__main__":
    harness_guard(main)
