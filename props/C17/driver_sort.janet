# C17 sort driver: one batch item = one whole family, enumerated inside janet.
#
# item = (family variant cmp n k prefix)
#   family : seqs   all sequences of length n over 0..k-1 that start with `prefix`
#            perms  all permutations of 0..n-1 that start with `prefix`
#            ranks  all sequences of length n over 0..k-1 (prefix) x every rank vector r in (0..k-1)^k,
#                   comparator (fn [a b] (< (r a) (r b)))  -- every strict weak order on k letters
#            tagged all sequences of keys of length n over 0..k-1, element i is the tuple [key i]
#                   (ties between distinguishable elements), comparator first<
#   variant: sort | sorted | sort-by | sorted-by | sort-buf
#   cmp    : name in `cmps` (for sort-by / sorted-by: name in `keys`)
# Result: "cases=<n> fails=<m> first=<canon of the first failing input or nil>"
#
# Laws checked for each call (stated in the property): the result is ordered w.r.t. the comparator
# (no adjacent pair with (before? later earlier)), it is a permutation of the input (same multiset of
# elements), `sort`/`sort-by` return the very array they were given, `sorted`/`sorted-by` return a new
# array and leave the input as it was.

(use prelude)
(import ./fns :prefix "")

(def cmps
  {:default nil
   :lt <
   :gt >
   :lt-fn (fn [a b] (< a b))
   :gt-fn (fn [a b] (> a b))
   :mod2 (fns 'mod2<)
   :half (fns 'half>)
   :first (fns 'first<)})

(def keyfns
  {:identity identity
   :neg (fns 'neg)
   :mod2 (fns 'mod2)
   :half (fns 'half)})

(defn- before-of [variant cmp]
  (case variant
    :sort-by (let [f (keyfns cmp)] (fn [a b] (< (f a) (f b))))
    :sorted-by (let [f (keyfns cmp)] (fn [a b] (< (f a) (f b))))
    (or (cmps cmp) <)))

(defn- same-multiset? [a b]
  # a, b arrays of equal length; O(n^2) matching without any library helper
  (def n (length a))
  (if (not= n (length b)) (break false))
  (def used (array/new-filled n false))
  (var ok true)
  (for i 0 n
    (var found false)
    (for j 0 n
      (when (and (not found) (not (in used j)) (= (in a i) (in b j)))
        (put used j true)
        (set found true)))
    (if (not found) (set ok false)))
  ok)

(defn- ordered? [a before?]
  (var ok true)
  (for i 1 (length a)
    (if (before? (in a i) (in a (- i 1))) (set ok false)))
  ok)

(defn- copy [xs]
  (def r (array/new (length xs)))
  (for i 0 (length xs) (array/push r (in xs i)))
  r)

(defn- same-elems? [a b]
  (var ok (= (length a) (length b)))
  (if ok (for i 0 (length a) (if (not= (in a i) (in b i)) (set ok false))))
  ok)

(defn- check-one [variant cmp before? input]
  # input: fresh array. returns true when every law holds
  (def saved (copy input))
  (def [ok res]
    (protect
      (case variant
        :sort (if (= cmp :default) (sort input) (sort input (cmps cmp)))
        :sorted (if (= cmp :default) (sorted input) (sorted input (cmps cmp)))
        :sort-by (sort-by (keyfns cmp) input)
        :sorted-by (sorted-by (keyfns cmp) input)
        :sort-buf (let [b (buffer/from-bytes ;input)
                        r (if (= cmp :default) (sort b) (sort b (cmps cmp)))]
                    (if (= r b) (array ;(string/bytes r)) :not-same)))))
  (and ok
       (array? res)
       (case variant
         :sort (= res input)
         :sort-by (= res input)
         :sort-buf true
         (and (not= res input) (same-elems? input saved)))
       (same-multiset? res saved)
       (ordered? res before?)))

(defn- run-seqs [variant cmp n k prefix before? mk]
  (var cases 0)
  (var fails 0)
  (var first-bad nil)
  (def m (- n (length prefix)))
  (def digits (array/new-filled (max m 0) 0))
  (var done (< m 0))
  (while (not done)
    (def input (array/new n))
    (each p prefix (array/push input p))
    (each d digits (array/push input d))
    (def shown (copy input))
    (++ cases)
    (unless (check-one variant cmp before? (mk input))
      (++ fails)
      (if (nil? first-bad) (set first-bad shown)))
    # odometer
    (var i (- m 1))
    (while (and (>= i 0) (= (in digits i) (- k 1)))
      (put digits i 0)
      (-- i))
    (if (< i 0) (set done true) (put digits i (+ 1 (in digits i)))))
  [cases fails first-bad])

(defn- run-perms [variant cmp n prefix before?]
  (var cases 0)
  (var fails 0)
  (var first-bad nil)
  (def cur (copy prefix))
  (def used (array/new-filled n false))
  (each p prefix (put used p true))
  (defn rec []
    (if (= (length cur) n)
      (do
        (def input (copy cur))
        (++ cases)
        (def good (check-one variant cmp before? input))
        # with a total order on distinct keys the answer is unique: compare with the identity / reverse
        (def exact
          (if (= variant :sort)
            (do
              (var ok true)
              (def res input)
              (case cmp
                :gt (for i 0 n (if (not= (in res i) (- n 1 i)) (set ok false)))
                :gt-fn (for i 0 n (if (not= (in res i) (- n 1 i)) (set ok false)))
                :mod2 nil
                :half nil
                (if (= variant :sort) (for i 0 n (if (not= (in res i) i) (set ok false)))))
              ok)
            true))
        (unless (and good exact)
          (++ fails)
          (if (nil? first-bad) (set first-bad (copy cur)))))
      (for v 0 n
        (unless (in used v)
          (put used v true)
          (array/push cur v)
          (rec)
          (array/pop cur)
          (put used v false)))))
  (rec)
  [cases fails first-bad])

(defn- run-ranks [variant n k prefix]
  (var cases 0)
  (var fails 0)
  (var first-bad nil)
  (def r (array/new-filled k 0))
  (var done false)
  (while (not done)
    (def rv (copy r))
    (def before? (fn [a b] (< (in rv a) (in rv b))))
    # install as a one-off comparator
    (def [c f b] (do
                   (var cases2 0) (var fails2 0) (var bad nil)
                   (def m (- n (length prefix)))
                   (def digits (array/new-filled (max m 0) 0))
                   (var d2 (< m 0))
                   (while (not d2)
                     (def input (array/new n))
                     (each p prefix (array/push input p))
                     (each d digits (array/push input d))
                     (def saved (copy input))
                     (++ cases2)
                     (def [ok res] (protect (if (= variant :sort) (sort input before?) (sorted input before?))))
                     (unless (and ok (array? res)
                                  (if (= variant :sort) (= res input) (and (not= res input) (same-elems? input saved)))
                                  (same-multiset? res saved) (ordered? res before?))
                       (++ fails2)
                       (if (nil? bad) (set bad [rv saved])))
                     (var i (- m 1))
                     (while (and (>= i 0) (= (in digits i) (- k 1))) (put digits i 0) (-- i))
                     (if (< i 0) (set d2 true) (put digits i (+ 1 (in digits i)))))
                   [cases2 fails2 bad]))
    (+= cases c)
    (+= fails f)
    (if (and (nil? first-bad) b) (set first-bad b))
    (var i (- k 1))
    (while (and (>= i 0) (= (in r i) (- k 1))) (put r i 0) (-- i))
    (if (< i 0) (set done true) (put r i (+ 1 (in r i)))))
  [cases fails first-bad])

(batch-run
  (fn [item]
    (def [family variant cmp n k prefix] item)
    (def before? (before-of variant cmp))
    (def [cases fails bad]
      (case family
        'seqs (run-seqs variant cmp n k prefix before? identity)
        'tagged (run-seqs variant cmp n k prefix before?
                          (fn [input] (def r (array/new n)) (for i 0 n (array/push r [(in input i) i])) r))
        'perms (run-perms variant cmp n prefix before?)
        'ranks (run-ranks variant n k prefix)
        (errorf "unknown family %v" family)))
    (string "cases=" cases " fails=" fails " first=" (canon bad))))
