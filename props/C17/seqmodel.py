"""Reference definitions of the generic sequence functions of boot.janet / corelib.c, written from the
docstrings. Iteration domain: arrays, tuples (elements), strings/buffers/keywords/symbols (bytes as
integers), nil (empty); tables and structs only where the function is about dictionaries."""
import math

from model import (define, JErr, Skip, Buf, Arr, Kw, Sym, BTuple, Tab, Struct, Fn, is_num, is_bytes, is_indexed,
                   is_dict, truthy, getint, getnat, getbytes, getarr, getindexed, arity, jeq, jcmp_num, slice_range,
                   FUNCS)


def elems(x):
    """the values an `each` loop visits"""
    if x is None:
        raise JErr("nil is not iterable")          # convention (implementation): `next` rejects nil
    if is_indexed(x):
        return list(x)
    if is_bytes(x):
        return list(getbytes(x))
    if is_dict(x):
        if len(x.kv) > 1:
            raise Skip("iteration order of a dictionary")
        return [v for k, v in x.kv]
    raise JErr("not iterable")


def callf(f, *a):
    if not isinstance(f, Fn):
        if isinstance(f, (Tab, Struct)):
            raise Skip("data structure called as a function")
        raise Skip("non-function in function position")
    return f(*a)


def zipped(ind, inds):
    if any(i is None for i in inds):
        raise Skip("nil as a secondary column: only consulted when the first column is non-empty")
    cols = [elems(ind)] + [elems(i) for i in inds]
    n = min(len(c) for c in cols)
    return [tuple(c[i] for c in cols) for i in range(n)]


@define("map")
def map_(*a):
    arity(a, 2, -1)
    return Arr(callf(a[0], *t) for t in zipped(a[1], a[2:]))


@define("mapcat")
def mapcat(*a):
    arity(a, 2, -1)
    out = Arr()
    for t in zipped(a[1], a[2:]):
        r = callf(a[0], *t)
        if is_indexed(r):
            out.extend(r)
        else:
            out.append(r)
    return out


@define("keep")
def keep(*a):
    arity(a, 2, -1)
    out = Arr()
    for t in zipped(a[1], a[2:]):
        r = callf(a[0], *t)
        if truthy(r):
            out.append(r)
    return out


@define("count")
def count(*a):
    arity(a, 2, -1)
    return sum(1 for t in zipped(a[1], a[2:]) if truthy(callf(a[0], *t)))


@define("some")
def some(*a):
    arity(a, 2, -1)
    for t in zipped(a[1], a[2:]):
        r = callf(a[0], *t)
        if truthy(r):
            return r
    return None


@define("all")
def all_(*a):
    arity(a, 2, -1)
    for t in zipped(a[1], a[2:]):
        r = callf(a[0], *t)
        if not truthy(r):
            return r
    return True


@define("filter")
def filter_(*a):
    arity(a, 2, 2)
    return Arr(x for x in elems(a[1]) if truthy(callf(a[0], x)))


@define("reduce")
def reduce_(*a):
    arity(a, 3, 3)
    acc = a[1]
    for x in elems(a[2]):
        acc = callf(a[0], acc, x)
    return acc


@define("reduce2")
def reduce2(*a):
    arity(a, 2, 2)
    xs = elems(a[1])
    if not xs:
        return None
    acc = xs[0]
    for x in xs[1:]:
        acc = callf(a[0], acc, x)
    return acc


@define("accumulate")
def accumulate(*a):
    arity(a, 3, 3)
    acc = a[1]
    out = Arr()
    for x in elems(a[2]):
        acc = callf(a[0], acc, x)
        out.append(acc)
    return out


@define("accumulate2")
def accumulate2(*a):
    arity(a, 2, 2)
    xs = elems(a[1])
    out = Arr()
    if not xs:
        return out
    acc = xs[0]
    out.append(acc)
    for x in xs[1:]:
        acc = callf(a[0], acc, x)
        out.append(acc)
    return out


def _view(ind):
    """indexed -> (list, tuple-maker); bytes -> (bytes, bytes-maker)"""
    if is_indexed(ind):
        return list(ind), tuple
    if is_bytes(ind):
        return getbytes(ind), bytes
    if ind is None or is_dict(ind) or isinstance(ind, Fn):
        raise Skip("take/drop on nil, dictionaries and fibers is outside the enumerated domain")
    raise Skip("take/drop on a non-sequence")


def _intn(n):
    if not is_num(n):
        raise Skip("non-number count")
    if n != n or abs(n) == math.inf or n != math.floor(n) or abs(n) > 2 ** 31:
        raise Skip("non-integer count")
    return int(n)


@define("take")
def take(*a):
    arity(a, 2, 2)
    v, mk = _view(a[1])
    n = _intn(a[0])
    if n >= 0:
        return mk(v[:n])
    return mk(v[max(0, len(v) + n):])


@define("drop")
def drop(*a):
    arity(a, 2, 2)
    v, mk = _view(a[1])
    n = _intn(a[0])
    if n >= 0:
        return mk(v[n:])
    return mk(v[:max(0, len(v) + n)])


def _split_at(pred, v, until):
    for i, x in enumerate(v):
        r = truthy(callf(pred, x))
        if r == until:
            return i
    return len(v)


@define("take-while")
def take_while(*a):
    arity(a, 2, 2)
    v, mk = _view(a[1])
    return mk(v[:_split_at(a[0], v, False)])


@define("take-until")
def take_until(*a):
    arity(a, 2, 2)
    v, mk = _view(a[1])
    return mk(v[:_split_at(a[0], v, True)])


@define("drop-while")
def drop_while(*a):
    arity(a, 2, 2)
    v, mk = _view(a[1])
    return mk(v[_split_at(a[0], v, False):])


@define("drop-until")
def drop_until(*a):
    arity(a, 2, 2)
    v, mk = _view(a[1])
    return mk(v[_split_at(a[0], v, True):])


@define("partition")
def partition(*a):
    arity(a, 2, 2)
    if is_dict(a[1]) or a[1] is None:
        raise Skip("partition of a dictionary / nil")
    v, mk = _view(a[1])
    n = a[0]
    if not is_num(n):
        raise Skip("non-number size")
    if n != n or abs(n) == math.inf or n != math.floor(n):
        raise Skip("non-integer size")
    if n <= 0:
        if len(v) == 0:
            raise Skip("non-positive size on an empty sequence")
        raise JErr("size must be positive")       # convention (docstring: "tuples of size n")
    n = int(n)
    return Arr(mk(v[i:i + n]) for i in range(0, len(v), n))


@define("partition-by")
def partition_by(*a):
    arity(a, 2, 2)
    out = Arr()
    cur = None
    cat = None
    for x in elems(a[1]):
        y = callf(a[0], x)
        if cur is not None and jeq(y, cat):
            cur.append(x)
        else:
            cur = Arr([x])
            cat = y
            out.append(cur)
    return out


@define("interleave")
def interleave(*a):
    if not a:
        raise JErr("no columns")                   # convention
    out = Arr()
    for t in zipped(a[0], a[1:]):
        out.extend(t)
    return out


@define("interpose")
def interpose(*a):
    arity(a, 2, 2)
    out = Arr()
    for i, x in enumerate(elems(a[1])):
        if i:
            out.append(a[0])
        out.append(x)
    return out


@define("range")
def range_(*a):
    arity(a, 1, 3)
    for x in a:
        if not is_num(x):
            raise JErr("expected number")
    if any(x != x or abs(x) == math.inf for x in a):
        raise Skip("non-finite bounds: undocumented (must not crash)")
    if any(x != math.floor(x) for x in a):
        return _range_float(a)
    if any(abs(x) > 2 ** 40 for x in a):
        raise Skip("huge bounds")
    start, stop, step = 0, 0, 1
    if len(a) == 1:
        stop = a[0]
    elif len(a) == 2:
        start, stop = a
    else:
        start, stop, step = a
    start, stop, step = int(start), int(stop), int(step)
    if step == 0:
        raise Skip("zero step: undocumented (must not crash)")
    n = len(range(start, stop, step))
    if n > 2 ** 31 - 1:
        raise JErr("range too large")
    if n > 100000:
        raise Skip("large")
    return Arr(range(start, stop, step))


def _range_float(a):
    """fractional bounds: "[start, end) with a given step". The element count is ceil((end-start)/step);
    predicted only when the exact rational quotient and the IEEE quotient agree on it (otherwise the
    half-open reading and the rounded reading differ by one element and the docstring does not decide)."""
    from fractions import Fraction
    start, stop, step = 0.0, 0.0, 1.0
    if len(a) == 1:
        stop = float(a[0])
    elif len(a) == 2:
        start, stop = float(a[0]), float(a[1])
    else:
        start, stop, step = float(a[0]), float(a[1]), float(a[2])
    if step == 0:
        raise Skip("zero step: undocumented (must not crash)")
    exact = (Fraction(stop) - Fraction(start)) / Fraction(step)
    n_exact = max(0, math.ceil(exact))
    q = (stop - start) / step
    n_float = max(0, math.ceil(q))
    if n_exact != n_float:
        raise Skip("count depends on rounding of the quotient")
    if n_exact > 100000:
        raise Skip("large")
    return Arr(start + i * step for i in range(n_exact))


@define("distinct")
def distinct(*a):
    arity(a, 1, 1)
    out = Arr()
    for x in elems(a[0]):
        if not any(jeq(x, y) for y in out):
            out.append(x)
    return out


@define("frequencies")
def frequencies(*a):
    arity(a, 1, 1)
    t = Tab()
    for x in elems(a[0]):
        if x is None or (isinstance(x, float) and x != x):
            raise Skip("nil / nan cannot be table keys")
        t.put(x, (t.get(x) or 0) + 1)
    return t


def _dict_items(c):
    if is_dict(c):
        return c.items()
    if is_indexed(c):
        return list(enumerate(c))
    if is_bytes(c):
        return list(enumerate(getbytes(c)))
    raise JErr("not a dictionary")


def _tput(t, k, v):
    if k is None:
        raise Skip("nil key")
    if isinstance(k, float) and k != k:
        raise Skip("nan key")
    t.put(k, v)


@define("merge")
def merge(*a):
    t = Tab()
    for c in a:
        for k, v in _dict_items(c):
            _tput(t, k, v)
    return t


@define("merge-into")
def merge_into(*a):
    arity(a, 1, -1)
    t = a[0]
    if not isinstance(t, Tab):
        raise Skip("merge-into a non-table")
    for c in a[1:]:
        for k, v in _dict_items(c):
            _tput(t, k, v)
    return t


@define("zipcoll")
def zipcoll(*a):
    arity(a, 2, 2)
    t = Tab()
    for k, v in zip(elems(a[0]), elems(a[1])):
        _tput(t, k, v)
    return t


@define("from-pairs")
def from_pairs(*a):
    arity(a, 1, 1)
    t = Tab()
    for p in elems(a[0]):
        if not is_indexed(p) or len(p) < 2:
            raise Skip("malformed pair")
        _tput(t, p[0], p[1])
    return t


@define("invert")
def invert(*a):
    arity(a, 1, 1)
    ds = a[0]
    items = _dict_items(ds)
    vals = [v for k, v in items]
    for i, v in enumerate(vals):
        if any(jeq(v, w) for w in vals[:i]):
            raise Skip("duplicate values: which key survives is unspecified")
    t = Tab()
    for k, v in items:
        _tput(t, v, k)
    return t


def _extreme(better, xs):
    if not xs:
        return None
    best = xs[0]
    for x in xs[1:]:
        if truthy(better(x, best)):
            best = x
    return best


def _numeric(xs):
    for x in xs:
        if not is_num(x):
            raise Skip("min/max of non-numbers")
        if x != x:
            raise Skip("nan")
    return xs


@define("min")
def min_(*a):
    return _extreme(lambda x, y: x < y, _numeric(list(a)))


@define("max")
def max_(*a):
    return _extreme(lambda x, y: x > y, _numeric(list(a)))


@define("min-of")
def min_of(*a):
    arity(a, 1, 1)
    return _extreme(lambda x, y: x < y, _numeric(elems(a[0])))


@define("max-of")
def max_of(*a):
    arity(a, 1, 1)
    return _extreme(lambda x, y: x > y, _numeric(elems(a[0])))


@define("extreme")
def extreme(*a):
    arity(a, 2, 2)
    xs = elems(a[1])
    # "the most extreme value": with ties under `order` any maximal element qualifies; the check only
    # passes orders that are strict on distinct values, where the answer is unique up to equality
    return _extreme(lambda x, y: callf(a[0], x, y), xs)


@define("sum")
def sum_(*a):
    arity(a, 1, 1)
    s = 0.0
    for x in elems(a[0]):
        if not is_num(x):
            raise JErr("not a number")
        s += float(x)
    return s


@define("product")
def product(*a):
    arity(a, 1, 1)
    s = 1.0
    for x in elems(a[0]):
        if not is_num(x):
            raise JErr("not a number")
        s *= float(x)
    return s


@define("mean")
def mean(*a):
    arity(a, 1, 1)
    xs = elems(a[0])
    for x in xs:
        if not is_num(x):
            raise JErr("not a number")
    if not xs:
        return float("nan")
    return sum(float(x) for x in xs) / len(xs)


@define("reverse")
def reverse(*a):
    arity(a, 1, 1)
    t = a[0]
    if is_bytes(t):
        return Buf(getbytes(t)[::-1])
    if is_indexed(t):
        return Arr(reversed(t))
    raise Skip("reverse of a non-sequence")


@define("reverse!")
def reverse_bang(*a):
    arity(a, 1, 1)
    t = a[0]
    if isinstance(t, Arr):
        t.reverse()
        return t
    if isinstance(t, Buf):
        t.b.reverse()
        return t
    if is_indexed(t) or is_bytes(t):
        if len(elems(t)) < 2:
            return t
        raise JErr("immutable")
    raise Skip("reverse! of a non-sequence")


def _flatten_into(out, xs):
    for x in elems(xs):
        if is_indexed(x):
            _flatten_into(out, x)
        else:
            out.append(x)


@define("flatten")
def flatten(*a):
    arity(a, 1, 1)
    out = Arr()
    _flatten_into(out, a[0])
    return out


@define("flatten-into")
def flatten_into(*a):
    arity(a, 2, 2)
    out = getarr(a[0]) if isinstance(a[0], Arr) else None
    if out is None:
        raise Skip("flatten-into a non-array")
    _flatten_into(out, a[1])
    return out


@define("find")
def find(*a):
    arity(a, 2, 3)
    for x in elems(a[1]):
        if truthy(callf(a[0], x)):
            return x
    return a[2] if len(a) == 3 else None


@define("find-index")
def find_index(*a):
    arity(a, 2, 3)
    for i, x in enumerate(elems(a[1])):
        if truthy(callf(a[0], x)):
            return i
    return a[2] if len(a) == 3 else None


@define("index-of")
def index_of(*a):
    arity(a, 2, 3)
    if is_dict(a[1]):
        hits = [k for k, v in a[1].items() if jeq(v, a[0])]
        if len(hits) > 1:
            raise Skip("several keys: first in hash order")
        if hits:
            return hits[0]
    else:
        for i, x in enumerate(elems(a[1])):
            if jeq(x, a[0]):
                return i
    return a[2] if len(a) == 3 else None


@define("has-value?")
def has_value(*a):
    arity(a, 2, 2)
    if is_dict(a[0]):
        return any(jeq(v, a[1]) for k, v in a[0].items())
    return any(jeq(x, a[1]) for x in elems(a[0]))


@define("any?")
def any_(*a):
    arity(a, 1, 1)
    r = None
    for x in elems(a[0]):
        r = x
        if truthy(x):
            return x
    return r


@define("every?")
def every(*a):
    arity(a, 1, 1)
    r = True
    for x in elems(a[0]):
        r = x
        if not truthy(x):
            return x
    return r


@define("first")
def first(*a):
    arity(a, 1, 1)
    if is_dict(a[0]) or isinstance(a[0], Fn):
        raise Skip("first of a dictionary")
    if not is_indexed(a[0]) and not is_bytes(a[0]):
        return None          # `get` semantics: no error for non-indexable values
    xs = elems(a[0])
    return xs[0] if xs else None


@define("last")
def last(*a):
    arity(a, 1, 1)
    if is_dict(a[0]):
        raise Skip("last of a dictionary")
    if a[0] is None or not (is_indexed(a[0]) or is_bytes(a[0])):
        raise Skip("last of a value without a length")
    xs = elems(a[0])
    return xs[-1] if xs else None


@define("group-by")
def group_by(*a):
    arity(a, 2, 2)
    t = Tab()
    for x in elems(a[1]):
        y = callf(a[0], x)
        cur = t.get(y)
        if cur is None:
            _tput(t, y, Arr([x]))
        else:
            cur.append(x)
    return t


@define("slice")
def slice_(*a):
    arity(a, 1, 3)
    if is_bytes(a[0]):
        b = getbytes(a[0])
        s, e = slice_range(a, len(b))
        return b[s:e]
    if is_indexed(a[0]):
        s, e = slice_range(a, len(a[0]))
        return tuple(a[0][s:e])
    raise JErr("expected bytes or indexed")


@define("empty?")
def empty(*a):
    arity(a, 1, 1)
    if is_dict(a[0]):
        return len(a[0].kv) == 0
    return len(elems(a[0])) == 0


@define("length")
def length(*a):
    arity(a, 1, 1)
    if is_dict(a[0]):
        return len(a[0].kv)
    if a[0] is None or not (is_indexed(a[0]) or is_bytes(a[0])):
        raise JErr("no length")
    return len(elems(a[0]))


def _canon_sorted(xs):
    from model import canon
    return tuple(sorted(canon(x).encode("latin-1") for x in xs))


def _kitems(x):
    if is_dict(x):
        return x.items()
    if is_indexed(x) or is_bytes(x):
        return list(enumerate(elems(x)))
    raise JErr("not associative")


@define("u/keys")
def u_keys(*a):
    arity(a, 1, 1)
    return _canon_sorted([k for k, v in _kitems(a[0])])


@define("u/values")
def u_values(*a):
    arity(a, 1, 1)
    return _canon_sorted([v for k, v in _kitems(a[0])])


@define("u/pairs")
def u_pairs(*a):
    arity(a, 1, 1)
    return _canon_sorted([(k, v) for k, v in _kitems(a[0])])


@define("u/kvs")
def u_kvs(*a):
    arity(a, 1, 1)
    if not is_dict(a[0]):
        raise Skip("kvs of a non-dictionary")
    return _canon_sorted([(k, v) for k, v in _kitems(a[0])])


@define("keys")
def keys(*a):
    arity(a, 1, 1)
    if is_dict(a[0]) and len(a[0].kv) > 1:
        raise Skip("hash order")
    return Arr(k for k, v in _kitems(a[0]))


@define("values")
def values(*a):
    arity(a, 1, 1)
    if is_dict(a[0]) and len(a[0].kv) > 1:
        raise Skip("hash order")
    return Arr(v for k, v in _kitems(a[0]))


@define("pairs")
def pairs(*a):
    arity(a, 1, 1)
    if is_dict(a[0]) and len(a[0].kv) > 1:
        raise Skip("hash order")
    return Arr((k, v) for k, v in _kitems(a[0]))


# sort family on the generic runner: exact prediction only when the order is total on the values present
def _sort_exact(xs, before):
    # insertion sort by `before`; raises Skip when two different elements are tied (unstable sort: order unspecified)
    out = []
    for x in xs:
        i = len(out)
        while i > 0 and truthy(before(x, out[i - 1])):
            i -= 1
        out.insert(i, x)
    for x, y in zip(out, out[1:]):
        if not truthy(before(x, y)) and not truthy(before(y, x)) and not jeq(x, y):
            raise Skip("tie between distinct elements")
        if truthy(before(y, x)):
            raise Skip("not a strict weak order")
    return out


def _lt(a, b):
    return jcmp_num(a, b)


@define("sort")
def sort(*a):
    arity(a, 1, 2)
    ind = a[0]
    before = (lambda x, y: callf(a[1], x, y)) if len(a) == 2 and a[1] is not None else _lt
    if isinstance(ind, Arr):
        r = _sort_exact(list(ind), before)
        ind[:] = r
        return ind
    if isinstance(ind, Buf):
        r = _sort_exact(list(ind.b), before)
        ind.b[:] = bytes(r)
        return ind
    raise Skip("sort of an immutable or non-indexed value")


@define("sorted")
def sorted_(*a):
    arity(a, 1, 2)
    before = (lambda x, y: callf(a[1], x, y)) if len(a) == 2 and a[1] is not None else _lt
    if not is_indexed(a[0]):
        raise Skip("sorted of a non-indexed value")
    return Arr(_sort_exact(list(a[0]), before))


@define("sort-by")
def sort_by(*a):
    arity(a, 2, 2)
    ind = a[1]
    before = lambda x, y: jcmp_num(callf(a[0], x), callf(a[0], y))
    if isinstance(ind, Arr):
        ind[:] = _sort_exact(list(ind), before)
        return ind
    raise Skip("sort-by of a non-array")


@define("sorted-by")
def sorted_by(*a):
    arity(a, 2, 2)
    before = lambda x, y: jcmp_num(callf(a[0], x), callf(a[0], y))
    if not is_indexed(a[1]):
        raise Skip("sorted-by of a non-indexed value")
    return Arr(_sort_exact(list(a[1]), before))
