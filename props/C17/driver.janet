# C17 generic differential driver.
#
# item = (fname arg ...) as *data* (never evaluated):
#   - a bare symbol `$k` is an alias of argument k (same object, for self-aliasing),
#   - any other bare symbol is looked up in `fns` below, else in the core environment
#     (so `<`, `even?`, `string/ascii-upper` can be passed as function arguments),
#   - (quote x) is the datum x (the way to pass a symbol value),
#   - (:u64 "123") / (:s64 "-5") build core/u64 / core/s64 values,
#   - everything else is itself; mutable literals are fresh because each item is parsed afresh.
#
# Output (one line):  R|E <tab> canon(result) <tab> alias-index <tab> canon(arg0) <tab> canon(arg1) ...
#   alias-index: index of the argument that is the very same mutable object as the result, else -1.
#   After an error ("E") the result field is empty; argument states are still reported.
# With C17_TRIM=1 every top-level array/buffer argument is trimmed to capacity == count before the call
# so that every growth reallocates and ASan sees the exact extent of the data.

(use prelude)

(import ./fns :prefix "")

# wrappers whose result order is unspecified (hash order): compare as a sorted multiset of canon texts
(defn- msort [xs] (tuple ;(sort (map canon xs))))
(put fns 'u/keys (fn [x] (msort (keys x))))
(put fns 'u/values (fn [x] (msort (values x))))
(put fns 'u/pairs (fn [x] (msort (pairs x))))
(put fns 'u/kvs (fn [x] (msort (partition 2 (kvs x)))))


(def- trim? (= "1" (os/getenv "C17_TRIM")))

(defn- lookup [s]
  (def f (get fns s))
  (if (not= nil f) f
    (let [e (or (get root-env s) (get (curenv) s))]
      (if (and e (not= nil (get e :value)))
        (get e :value)
        (errorf "C17 driver: unknown function symbol %v" s)))))

(defn- resolve [a args]
  (cond
    (symbol? a)
    (if (= 36 (get a 0)) # $k
      (in args (scan-number (string/slice a 1)))
      (lookup a))
    (and (tuple? a) (= :parens (tuple/type a)) (= 2 (length a)))
    (case (in a 0)
      'quote (in a 1)
      :u64 (int/u64 (in a 1))
      :s64 (int/s64 (in a 1))
      a)
    a))

(defn- mutable? [x] (case (type x) :array true :buffer true :table true false))

# a buffer/array whose length field disagrees with what iteration visits (e.g. a negative count)
# looks empty to `canon`; make it visible
(defn- len-ok? [x]
  (case (type x)
    :buffer (do (var n 0) (each _ x (++ n)) (and (>= (length x) 0) (= n (length x))))
    :array (do (var n 0) (each _ x (++ n)) (and (>= (length x) 0) (= n (length x))))
    true))

(defn- canon* [x]
  (if (len-ok? x) (canon x) (string "BADLEN:" (length x) ":" (canon x))))

(defn- arg-canon [a raw]
  (cond
    (and (symbol? raw) (= 36 (get raw 0))) (string raw)
    (or (function? a) (cfunction? a)) "fn"
    (canon* a)))

(batch-run
  (fn [item]
    (def fname (in item 0))
    (def f (lookup fname))
    (def args @[])
    (for i 1 (length item)
      (array/push args (resolve (in item i) args)))
    (when trim?
      (each a args
        (case (type a)
          :array (array/trim a)
          :buffer (buffer/trim a))))
    (def out @"")
    (def [ok res] (protect (f ;args)))
    (if ok
      (do
        (buffer/push out "R\t" (canon* res) "\t")
        (var al -1)
        (when (mutable? res)
          (for i 0 (length args)
            (when (and (= -1 al) (= res (in args i))) (set al i))))
        (buffer/push out (string al)))
      (buffer/push out "E\t\t-1"))
    (for i 0 (length args)
      (buffer/push out "\t" (arg-canon (in args i) (in item (+ i 1)))))
    (string out)))
