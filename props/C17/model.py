"""C17 reference model: Janet values in Python, the canonical printer of engine/drv/prelude.janet
re-stated, and one small reference definition per library function, written from the docstrings
(`(doc f)`), not from the C / boot.janet code. Where the docstring is silent the convention adopted is
listed in NOTES.md.

Values:  nil=None  booleans=bool  numbers=int|float  string=bytes  buffer=Buf  array=Arr
         tuple=tuple  bracket tuple=BTuple  keyword=Kw  symbol=Sym  table=Tab  struct=Struct
         function argument=Fn  alias of an earlier argument=Alias
"""
import math
import struct as _struct


class JErr(Exception):
    """the call raises a Janet error"""


class Skip(Exception):
    """the model declines to predict this case (outside the documented domain)"""


class Kw(str):
    __slots__ = ()

    def __eq__(self, o):
        return isinstance(o, Kw) and str.__eq__(self, o)

    def __ne__(self, o):
        return not self.__eq__(o)

    def __hash__(self):
        return hash(("kw", str(self)))


class Sym(str):
    __slots__ = ()

    def __eq__(self, o):
        return isinstance(o, Sym) and str.__eq__(self, o)

    def __ne__(self, o):
        return not self.__eq__(o)

    def __hash__(self):
        return hash(("sym", str(self)))


class BTuple(tuple):
    __slots__ = ()


class Buf(object):
    __slots__ = ("b",)

    def __init__(self, b=b""):
        self.b = bytearray(b)


class Arr(list):
    __slots__ = ()
    __hash__ = object.__hash__

    def __eq__(self, o):
        return self is o

    def __ne__(self, o):
        return self is not o


class Tab(object):
    """mutable table: insertion-ordered association list with Janet key equality"""
    __slots__ = ("kv",)

    def __init__(self, pairs=()):
        self.kv = []
        for k, v in pairs:
            self.put(k, v)

    def get(self, k, d=None):
        for kk, vv in self.kv:
            if jeq(kk, k):
                return vv
        return d

    def put(self, k, v):
        if k is None or (isinstance(k, float) and k != k):
            if k is None:
                return  # Janet: putting a nil key is a no-op for tables
            raise JErr("nan key")
        for i, (kk, vv) in enumerate(self.kv):
            if jeq(kk, k):
                if v is None:
                    del self.kv[i]
                else:
                    self.kv[i] = (kk, v)
                return
        if v is not None:
            self.kv.append((k, v))

    def items(self):
        return list(self.kv)


class Struct(object):
    __slots__ = ("kv",)

    def __init__(self, pairs=()):
        t = Tab(pairs)
        self.kv = tuple(t.kv)

    def get(self, k, d=None):
        for kk, vv in self.kv:
            if jeq(kk, k):
                return vv
        return d

    def items(self):
        return list(self.kv)


class Fn(object):
    __slots__ = ("name", "f")

    def __init__(self, name, f):
        self.name, self.f = name, f

    def __call__(self, *a):
        return self.f(*a)


class Alias(object):
    __slots__ = ("k",)

    def __init__(self, k):
        self.k = k


class U64(object):
    __slots__ = ("v",)

    def __init__(self, v):
        self.v = v


class S64(object):
    __slots__ = ("v",)

    def __init__(self, v):
        self.v = v


# ---------------------------------------------------------------------------
# predicates / coercions (each raises JErr the way an ill-typed argument must)

def is_num(x):
    return isinstance(x, (int, float)) and not isinstance(x, bool)


def is_bytes(x):
    return isinstance(x, (bytes, Buf, Kw, Sym))


def is_indexed(x):
    return isinstance(x, (tuple, Arr))


def is_dict(x):
    return isinstance(x, (Tab, Struct))


def truthy(x):
    return x is not None and x is not False


def finite_int(x):
    """a number with a finite integral value"""
    return is_num(x) and x == x and x not in (math.inf, -math.inf) and x == math.floor(x)


def checkint(x):
    return finite_int(x) and -2 ** 31 <= x <= 2 ** 31 - 1


def getint(x):
    if not checkint(x):
        raise JErr("expected 32 bit integer")
    return int(x)


def getnat(x):
    n = getint(x)
    if n < 0:
        raise JErr("expected non-negative integer")
    return n


def getnum(x):
    if not is_num(x):
        raise JErr("expected number")
    return x


def getbytes(x):
    if isinstance(x, bytes):
        return x
    if isinstance(x, Buf):
        return bytes(x.b)
    if isinstance(x, (Kw, Sym)):
        return str(x).encode("latin-1")
    raise JErr("expected bytes")


def getbuf(x):
    if not isinstance(x, Buf):
        raise JErr("expected buffer")
    return x


def getarr(x):
    if not isinstance(x, Arr):
        raise JErr("expected array")
    return x


def getindexed(x):
    if not is_indexed(x):
        raise JErr("expected array or tuple")
    return x


def arity(args, lo, hi):
    if len(args) < lo or (hi >= 0 and len(args) > hi):
        raise JErr("arity")


TYPE_RANK = {"nil": 0, "boolean": 1, "number": 2, "string": 3, "symbol": 4, "keyword": 5,
             "tuple": 6, "struct": 7, "buffer": 8, "array": 9, "table": 10}


def jtype(x):
    if x is None:
        return "nil"
    if isinstance(x, bool):
        return "boolean"
    if isinstance(x, (int, float)):
        return "number"
    if isinstance(x, bytes):
        return "string"
    if isinstance(x, Sym):
        return "symbol"
    if isinstance(x, Kw):
        return "keyword"
    if isinstance(x, tuple):
        return "tuple"
    if isinstance(x, Struct):
        return "struct"
    if isinstance(x, Buf):
        return "buffer"
    if isinstance(x, Arr):
        return "array"
    if isinstance(x, Tab):
        return "table"
    if isinstance(x, Fn):
        return "function"
    if isinstance(x, U64):
        return "core/u64"
    if isinstance(x, S64):
        return "core/s64"
    raise TypeError(x)


def jeq(a, b):
    """Janet `=`"""
    ta, tb = jtype(a), jtype(b)
    if ta != tb:
        return False
    if ta == "number":
        return a == b
    if ta in ("buffer", "array", "table", "function"):
        return a is b
    if ta == "tuple":
        return len(a) == len(b) and isinstance(a, BTuple) == isinstance(b, BTuple) and all(jeq(x, y) for x, y in zip(a, b))
    if ta == "struct":
        if len(a.kv) != len(b.kv):
            return False
        return all(jeq(b.get(k, _MISSING), v) for k, v in a.kv)
    if ta in ("core/u64", "core/s64"):
        return a.v == b.v
    return a == b


_MISSING = Fn("missing", None)


def jcmp_num(a, b):
    """primitive `<` restricted to the types the check uses (numbers, strings)."""
    if is_num(a) and is_num(b):
        return a < b
    if isinstance(a, bytes) and isinstance(b, bytes):
        return a < b
    raise Skip("comparison outside numbers/strings")


# ---------------------------------------------------------------------------
# canonical printer (mirror of prelude.janet `canon`)

def _hex(b):
    out = []
    for c in b:
        if c == 34:
            out.append('\\"')
        elif c == 92:
            out.append("\\\\")
        elif 32 <= c < 127:
            out.append(chr(c))
        else:
            out.append("\\x%02x" % c)
    return "".join(out)


def canon_num(x):
    if isinstance(x, int):
        if abs(x) < 10 ** 15:
            return str(x)
        x = float(x)
    if x != x:
        return "nan"
    if x == math.inf:
        return "inf"
    if x == -math.inf:
        return "-inf"
    if x == 0:
        return "-0" if math.copysign(1.0, x) < 0 else "0"
    if x == math.trunc(x) and abs(x) < 1e15:
        return "%d" % x
    return "%.17g" % x


def _sorted_pairs(kv):
    ks = [(TYPE_RANK.get(jtype(k), 11), canon(k), k, v) for k, v in kv]
    ks.sort(key=lambda t: (t[0], t[1]))
    return [(t[2], t[3]) for t in ks]


def _canon(x, out, seen):
    t = jtype(x)
    if t == "nil":
        out.append("nil")
    elif t == "boolean":
        out.append("true" if x else "false")
    elif t == "number":
        out.append(canon_num(x))
    elif t == "string":
        out.append('"' + _hex(x) + '"')
    elif t == "symbol":
        out.append("'" + _hex(str(x).encode("latin-1")))
    elif t == "keyword":
        out.append(":" + _hex(str(x).encode("latin-1")))
    elif t == "tuple":
        br = isinstance(x, BTuple)
        out.append("[" if br else "(")
        for i, v in enumerate(x):
            if i:
                out.append(" ")
            _canon(v, out, seen)
        out.append("]" if br else ")")
    elif t == "struct":
        out.append("{")
        for i, (k, v) in enumerate(_sorted_pairs(x.kv)):
            if i:
                out.append(" ")
            _canon(k, out, seen)
            out.append(" ")
            _canon(v, out, seen)
        out.append("}")
    else:
        if id(x) in seen:
            out.append("#%d" % seen[id(x)])
            return
        n = len(seen)
        seen[id(x)] = n
        out.append("#%d=" % n)
        if t == "array":
            out.append("@[")
            for i, v in enumerate(x):
                if i:
                    out.append(" ")
                _canon(v, out, seen)
            out.append("]")
        elif t == "buffer":
            out.append('@"' + _hex(x.b) + '"')
        elif t == "table":
            out.append("@{")
            for i, (k, v) in enumerate(_sorted_pairs(x.kv)):
                if i:
                    out.append(" ")
                _canon(k, out, seen)
                out.append(" ")
                _canon(v, out, seen)
            out.append("}")
        elif t == "core/u64":
            out.append("u64:%d" % x.v)
        elif t == "core/s64":
            out.append("s64:%d" % x.v)
        else:
            raise Skip("canon of %s" % t)


def canon(x):
    out = []
    _canon(x, out, {})
    return "".join(out)


# ---------------------------------------------------------------------------
# Janet source text of a value (argument position inside a batch item)

def _jstr(b):
    return '"' + _hex(b) + '"'


def emit(x, top=True):
    if x is None:
        return "nil"
    if x is True:
        return "true"
    if x is False:
        return "false"
    if isinstance(x, Alias):
        return "$%d" % x.k
    if isinstance(x, Fn):
        return x.name
    if isinstance(x, int):
        return str(x)
    if isinstance(x, float):
        if x != x:
            return "(quote nan)" if False else "math/nan"
        if x in (math.inf, -math.inf):
            return "math/inf" if x > 0 else "math/-inf"
        return repr(x)
    if isinstance(x, bytes):
        return _jstr(x)
    if isinstance(x, Buf):
        return "@" + _jstr(x.b)
    if isinstance(x, Kw):
        return ":" + str(x)
    if isinstance(x, Sym):
        return "(quote %s)" % x if top else str(x)
    if isinstance(x, Arr):
        return "@[" + " ".join(emit(v, False) for v in x) + "]"
    if isinstance(x, BTuple):
        return "[" + " ".join(emit(v, False) for v in x) + "]"
    if isinstance(x, tuple):
        return "(" + " ".join(emit(v, False) for v in x) + ")"
    if isinstance(x, Tab):
        return "@{" + " ".join(emit(k, False) + " " + emit(v, False) for k, v in x.kv) + "}"
    if isinstance(x, Struct):
        return "{" + " ".join(emit(k, False) + " " + emit(v, False) for k, v in x.kv) + "}"
    if isinstance(x, U64):
        return '(:u64 "%d")' % x.v
    if isinstance(x, S64):
        return '(:s64 "%d")' % x.v
    raise TypeError("emit %r" % (x,))


def clone(x):
    """fresh deep copy of an argument value (mutable parts are new objects)"""
    if isinstance(x, Buf):
        return Buf(x.b)
    if isinstance(x, Arr):
        return Arr(clone(v) for v in x)
    if isinstance(x, BTuple):
        return BTuple(clone(v) for v in x)
    if isinstance(x, tuple):
        return tuple(clone(v) for v in x)
    if isinstance(x, Tab):
        t = Tab()
        t.kv = [(clone(k), clone(v)) for k, v in x.kv]
        return t
    if isinstance(x, Struct):
        s = Struct()
        s.kv = tuple((clone(k), clone(v)) for k, v in x.kv)
        return s
    return x


# ---------------------------------------------------------------------------
# shared argument decoding, from the docstrings of string/slice, array/slice, buffer/blit:
# index i >= 0 counts from the front; i < 0 counts from the end with -1 == length (so that
# a negative start is exclusive and a negative end inclusive); anything outside [0,length] raises.

def endrel(x, length):
    i = getint(x)
    if i < 0:
        i += length + 1
    if i < 0 or i > length:
        raise JErr("index out of range")
    return i


def slice_range(args, length):
    arity(args, 1, 3)
    start = 0 if len(args) < 2 or args[1] is None else endrel(args[1], length)
    end = length if len(args) < 3 or args[2] is None else endrel(args[2], length)
    if end < start:
        end = start
    return start, end


FUNCS = {}


def define(name):
    def deco(f):
        FUNCS[name] = f
        return f
    return deco


# ---------------------------------------------------------------------------
# string/*

@define("string/slice")
def string_slice(*a):
    arity(a, 1, 3)
    b = getbytes(a[0])
    s, e = slice_range(a, len(b))
    return b[s:e]


@define("symbol/slice")
def symbol_slice(*a):
    return Sym(string_slice(*a).decode("latin-1"))


@define("keyword/slice")
def keyword_slice(*a):
    return Kw(string_slice(*a).decode("latin-1"))


@define("buffer/slice")
def buffer_slice(*a):
    return Buf(string_slice(*a))


@define("string/repeat")
def string_repeat(*a):
    arity(a, 2, 2)
    b = getbytes(a[0])
    n = getint(a[1])
    if n < 0:
        raise JErr("negative repeat")
    return b * n


@define("string/bytes")
def string_bytes(*a):
    arity(a, 1, 1)
    return tuple(getbytes(a[0]))


@define("string/from-bytes")
def string_from_bytes(*a):
    return bytes(getint(x) & 0xFF for x in a)


@define("buffer/from-bytes")
def buffer_from_bytes(*a):
    return Buf(bytes(getint(x) & 0xFF for x in a))


@define("string/ascii-lower")
def ascii_lower(*a):
    arity(a, 1, 1)
    return bytes(c + 32 if 65 <= c <= 90 else c for c in getbytes(a[0]))


@define("string/ascii-upper")
def ascii_upper(*a):
    arity(a, 1, 1)
    return bytes(c - 32 if 97 <= c <= 122 else c for c in getbytes(a[0]))


@define("string/reverse")
def string_reverse(*a):
    arity(a, 1, 1)
    return getbytes(a[0])[::-1]


def _find_args(a, lo, hi, text_at=1):
    arity(a, lo, hi)
    patt = getbytes(a[0])
    text = getbytes(a[text_at])
    start = 0
    if len(a) > text_at + 1:
        start = getint(a[text_at + 1])
        if start < 0:
            raise JErr("negative start")
    if len(patt) == 0:
        raise JErr("empty pattern")          # convention: the docstrings do not define empty patterns
    return patt, text, start


@define("string/find")
def string_find(*a):
    patt, text, start = _find_args(a, 2, 3)
    i = text.find(patt, start)
    return None if i < 0 else i


@define("string/find-all")
def string_find_all(*a):
    patt, text, start = _find_args(a, 2, 3)
    return Arr(i for i in range(start, len(text) - len(patt) + 1) if text[i:i + len(patt)] == patt)


@define("string/has-prefix?")
def has_prefix(*a):
    arity(a, 2, 2)
    return getbytes(a[1]).startswith(getbytes(a[0]))


@define("string/has-suffix?")
def has_suffix(*a):
    arity(a, 2, 2)
    return getbytes(a[1]).endswith(getbytes(a[0]))


def _subst(s, match):
    if isinstance(s, Fn):
        r = s(match)
        if not is_bytes(r):
            return describe_string(r)
        return getbytes(r)
    if is_bytes(s):
        return getbytes(s)
    return describe_string(s)


def describe_string(x):
    """(string x) for the few non-bytes values the check passes"""
    if x is None:
        return b""
    if x is True:
        return b"true"
    if x is False:
        return b"false"
    if finite_int(x) and abs(x) < 2 ** 53:
        return b"%d" % int(x)
    raise Skip("string of %r" % (x,))


@define("string/replace")
def string_replace(*a):
    patt, text, start = _find_args(a, 3, 4, text_at=2)
    i = text.find(patt, start)
    if i < 0:
        return text
    return text[:i] + _subst(a[1], patt) + text[i + len(patt):]


@define("string/replace-all")
def string_replace_all(*a):
    patt, text, start = _find_args(a, 3, 4, text_at=2)
    out = bytearray()
    last = 0
    i = text.find(patt, start)
    while i >= 0:
        out += text[last:i]
        out += _subst(a[1], patt)
        last = i + len(patt)
        i = text.find(patt, last)        # non-overlapping: continue after the match
    out += text[last:]
    return bytes(out)


@define("string/split")
def string_split(*a):
    arity(a, 2, 4)
    limit = None
    if len(a) == 4:
        limit = getint(a[3])
    patt, text, start = _find_args(a[:3], 2, 3)
    # convention: limit <= 0 means no limit (docstring: "up to a maximum of `limit` results (if provided)")
    parts = Arr()
    last = 0
    i = text.find(patt, start)
    while i >= 0 and not (limit is not None and limit > 0 and len(parts) + 1 >= limit):
        parts.append(text[last:i])
        last = i + len(patt)
        i = text.find(patt, last)
    parts.append(text[last:])
    return parts


@define("string/check-set")
def check_set(*a):
    arity(a, 2, 2)
    s = getbytes(a[0])
    return all(c in s for c in getbytes(a[1]))


@define("string/join")
def string_join(*a):
    arity(a, 1, 2)
    parts = getindexed(a[0])
    sep = getbytes(a[1]) if len(a) == 2 else b""
    return sep.join(getbytes(p) for p in parts)


WS = b" \t\r\n\v\f"


def _trim_args(a):
    arity(a, 1, 2)
    s = getbytes(a[0])
    st = getbytes(a[1]) if len(a) == 2 else WS
    return s, st


@define("string/trim")
def string_trim(*a):
    s, st = _trim_args(a)
    return s.strip(st) if st else s


@define("string/triml")
def string_triml(*a):
    s, st = _trim_args(a)
    return s.lstrip(st) if st else s


@define("string/trimr")
def string_trimr(*a):
    s, st = _trim_args(a)
    return s.rstrip(st) if st else s


# ---------------------------------------------------------------------------
# buffer/*   (mutators return the very same buffer object)

INT32_MAX = 2 ** 31 - 1


@define("buffer/new")
def buffer_new(*a):
    arity(a, 1, 1)
    getint(a[0])
    return Buf()


@define("buffer/new-filled")
def buffer_new_filled(*a):
    arity(a, 1, 2)
    n = getint(a[0])
    byte = getint(a[1]) & 0xFF if len(a) == 2 else 0
    return Buf(bytes([byte]) * max(n, 0))     # convention: negative count gives an empty buffer


@define("buffer/fill")
def buffer_fill(*a):
    arity(a, 1, 2)
    b = getbuf(a[0])
    byte = getint(a[1]) & 0xFF if len(a) == 2 else 0
    b.b[:] = bytes([byte]) * len(b.b)
    return b


@define("buffer/trim")
def buffer_trim(*a):
    arity(a, 1, 1)
    return getbuf(a[0])


@define("buffer/clear")
def buffer_clear(*a):
    arity(a, 1, 1)
    b = getbuf(a[0])
    del b.b[:]
    return b


@define("buffer/popn")
def buffer_popn(*a):
    arity(a, 2, 2)
    b = getbuf(a[0])
    n = getint(a[1])
    if n < 0:
        raise JErr("negative n")
    del b.b[max(0, len(b.b) - n):]
    return b


@define("buffer/push-byte")
def buffer_push_byte(*a):
    arity(a, 1, -1)
    b = getbuf(a[0])
    for x in a[1:]:
        b.b.append(getint(x) & 0xFF)
    return b


@define("buffer/push-word")
def buffer_push_word(*a):
    arity(a, 1, -1)
    b = getbuf(a[0])
    for x in a[1:]:
        x = getnum(x)
        if not (finite_int(x) and 0 <= x <= 2 ** 32 - 1):
            # docstring: "unsigned for all x"; negative numbers cannot be converted
            if finite_int(x) and -2 ** 31 <= x < 0:
                raise Skip("negative word: conversion of a negative double to uint32 is unspecified in C")
            raise JErr("cannot convert to machine word")
        b.b += _struct.pack("<I", int(x))
    return b


@define("buffer/push-string")
def buffer_push_string(*a):
    arity(a, 1, -1)
    b = getbuf(a[0])
    for x in a[1:]:
        b.b += getbytes(x)
    return b


def _push_mixed(b, xs):
    for x in xs:
        if is_num(x):
            b.b.append(getint(x) & 0xFF)
        else:
            b.b += getbytes(x)


@define("buffer/push")
def buffer_push(*a):
    arity(a, 1, -1)
    b = getbuf(a[0])
    _push_mixed(b, a[1:])
    return b


@define("buffer/push-at")
def buffer_push_at(*a):
    # "Same as buffer/push, but copies the new data into the buffer at index `index`."
    arity(a, 2, -1)
    b = getbuf(a[0])
    at = getint(a[1])
    if at < 0 or at > len(b.b):
        raise JErr("index out of range")
    # the data to push is what buffer/push would append, evaluated against the buffer as it is
    # when each argument is reached (a self-reference sees the current contents)
    pos = at
    for x in a[2:]:
        if is_num(x):
            d = bytes([getint(x) & 0xFF])
        else:
            d = getbytes(x)
        b.b[pos:pos + len(d)] = d
        pos += len(d)
    return b


def _order(x):
    if not isinstance(x, Kw):
        raise JErr("expected keyword")
    if x == Kw("le") or x == Kw("native"):
        return "<"
    if x == Kw("be"):
        return ">"
    raise JErr("bad endianness")


def _uint_arg(x, bits):
    if isinstance(x, U64) and bits == 64:
        return x.v
    if isinstance(x, S64) and bits == 64:
        return x.v & (2 ** 64 - 1)
    if not is_num(x):
        raise JErr("expected unsigned integer")
    if not finite_int(x):
        raise JErr("not an integer")
    if bits == 64:
        if x < 0:
            raise Skip("negative number as u64: wraps, C14 territory")
        if x > 2 ** 53:
            raise Skip("above 2^53")
        return int(x)
    if x < 0 or x > 2 ** bits - 1:
        raise JErr("out of range")
    return int(x)


def _push_fixed(a, fmt, conv):
    arity(a, 3, 3)
    b = getbuf(a[0])
    o = _order(a[1])
    b.b += _struct.pack(o + fmt, conv(a[2]))
    return b


@define("buffer/push-uint16")
def push_uint16(*a):
    return _push_fixed(a, "H", lambda x: _uint_arg(x, 16))


@define("buffer/push-uint32")
def push_uint32(*a):
    return _push_fixed(a, "I", lambda x: _uint_arg(x, 32))


@define("buffer/push-uint64")
def push_uint64(*a):
    return _push_fixed(a, "Q", lambda x: _uint_arg(x, 64))


def _f32(x):
    x = float(getnum(x))
    if x == x and abs(x) != math.inf and abs(x) > 3.4028235677973366e38:
        return math.copysign(math.inf, x)   # C cast of an out-of-range double to float: inf on IEEE hardware
    return x


@define("buffer/push-float32")
def push_float32(*a):
    return _push_fixed(a, "f", _f32)


@define("buffer/push-float64")
def push_float64(*a):
    return _push_fixed(a, "d", lambda x: float(getnum(x)))


def _bitloc(a):
    arity(a, 2, 2)
    b = getbuf(a[0])
    x = getnum(a[1])
    if not finite_int(x) or x < 0 or (int(x) >> 3) >= len(b.b):
        raise JErr("invalid bit index")
    i = int(x)
    return b, i >> 3, i & 7


@define("buffer/bit-set")
def bit_set(*a):
    b, i, k = _bitloc(a)
    b.b[i] |= 1 << k
    return b


@define("buffer/bit-clear")
def bit_clear(*a):
    b, i, k = _bitloc(a)
    b.b[i] &= ~(1 << k) & 0xFF
    return b


@define("buffer/bit-toggle")
def bit_toggle(*a):
    b, i, k = _bitloc(a)
    b.b[i] ^= 1 << k
    return b


@define("buffer/bit")
def bit_get(*a):
    b, i, k = _bitloc(a)
    return bool(b.b[i] & (1 << k))


@define("buffer/blit")
def buffer_blit(*a):
    # "Insert the contents of src into dest ... which part of src to copy into which part of dest.
    #  Indices can be negative in order to index from the end of src or dest. Returns dest."
    arity(a, 2, 5)
    dest = getbuf(a[0])
    src = getbytes(a[1])              # snapshot: a self-blit copies the contents before the call
    ds = 0 if len(a) < 3 or a[2] is None else endrel(a[2], len(dest.b))
    ss = 0 if len(a) < 4 or a[3] is None else endrel(a[3], len(src))
    se = len(src) if len(a) < 5 or a[4] is None else endrel(a[4], len(src))
    piece = src[ss:se] if se > ss else b""
    need = ds + len(piece)
    if need > len(dest.b):
        dest.b += b"\0" * (need - len(dest.b))
    dest.b[ds:ds + len(piece)] = piece
    return dest


# ---------------------------------------------------------------------------
# array/* tuple/*

@define("array/new")
def array_new(*a):
    arity(a, 1, 1)
    getint(a[0])
    return Arr()


@define("array/new-filled")
def array_new_filled(*a):
    arity(a, 1, 2)
    n = getnat(a[0])
    return Arr([a[1] if len(a) == 2 else None] * n)


@define("array/fill")
def array_fill(*a):
    arity(a, 1, 2)
    arr = getarr(a[0])
    v = a[1] if len(a) == 2 else None
    for i in range(len(arr)):
        arr[i] = v
    return arr


@define("array/pop")
def array_pop(*a):
    arity(a, 1, 1)
    arr = getarr(a[0])
    return arr.pop() if arr else None


@define("array/peek")
def array_peek(*a):
    arity(a, 1, 1)
    arr = getarr(a[0])
    return arr[-1] if arr else None


@define("array/push")
def array_push(*a):
    arity(a, 1, -1)
    arr = getarr(a[0])
    arr.extend(a[1:])
    return arr


@define("array/ensure")
def array_ensure(*a):
    arity(a, 3, 3)
    arr = getarr(a[0])
    cap = getint(a[1])
    growth = getint(a[2])
    if cap < 1:
        raise JErr("expected positive integer")
    if growth < 1:
        raise Skip("non-positive growth factor: undocumented (must not crash)")
    return arr


@define("array/trim")
def array_trim(*a):
    arity(a, 1, 1)
    return getarr(a[0])


@define("array/clear")
def array_clear(*a):
    arity(a, 1, 1)
    arr = getarr(a[0])
    del arr[:]
    return arr


@define("array/slice")
def array_slice(*a):
    arity(a, 1, 3)
    v = getindexed(a[0])
    s, e = slice_range(a, len(v))
    return Arr(v[s:e])


@define("tuple/slice")
def tuple_slice(*a):
    arity(a, 1, 3)
    v = getindexed(a[0])
    s, e = slice_range(a, len(v))
    return tuple(v[s:e])


@define("array/concat")
def array_concat(*a):
    arity(a, 1, -1)
    arr = getarr(a[0])
    for p in a[1:]:
        if is_indexed(p):
            arr.extend(list(p))          # list(p): a self-reference appends the elements present at that moment
        else:
            arr.append(p)
    return arr


@define("array/join")
def array_join(*a):
    arity(a, 1, -1)
    arr = getarr(a[0])
    for p in a[1:]:
        arr.extend(list(getindexed(p)))
    return arr


@define("tuple/join")
def tuple_join(*a):
    out = []
    for p in a:
        out.extend(getindexed(p))
    return tuple(out)


@define("array/insert")
def array_insert(*a):
    # "A negative value for `at` will index backwards from the end of the array, inserting after the
    #  index such that inserting at -1 appends to the array."
    arity(a, 2, -1)
    arr = getarr(a[0])
    at = endrel(a[1], len(arr))
    arr[at:at] = list(a[2:])
    return arr


@define("array/remove")
def array_remove(*a):
    # "Remove up to `n` elements starting at index `at` ... `at` can index from the end of the array
    #  with a negative index, and `n` must be a non-negative integer. By default, `n` is 1."
    arity(a, 2, 3)
    arr = getarr(a[0])
    at = getint(a[1])
    if at < 0:
        at += len(arr)                    # -1 is the last element
    if at < 0 or at > len(arr):           # convention: at == length is accepted and removes nothing
        raise JErr("removal index out of range")
    n = 1
    if len(a) == 3:
        n = getint(a[2])
        if n < 0:
            raise JErr("negative n")
    del arr[at:at + n]
    return arr


@define("tuple/brackets")
def tuple_brackets(*a):
    return BTuple(a)


@define("tuple/type")
def tuple_type(*a):
    arity(a, 1, 1)
    if not isinstance(a[0], tuple):
        raise JErr("expected tuple")
    return Kw("brackets") if isinstance(a[0], BTuple) else Kw("parens")


@define("tuple")
def tuple_(*a):
    return tuple(a)


@define("array")
def array_(*a):
    return Arr(a)


# ---------------------------------------------------------------------------
# Python twins of the functions passed as arguments (fns.janet + a few core functions)

def _num(x):
    if not is_num(x):
        raise JErr("expected number")
    return x


def _boom(*a):
    raise JErr("boom")


def _rep(x):
    return Arr([x] * getnat(x))


def _fl(x):
    """Janet numbers are IEEE doubles: arithmetic twins work on floats (so that -0 and overflow behave alike)"""
    return float(_num(x))


def _plus(*a):
    s = 0.0
    for x in a:
        s += _fl(x)
    return s


def _minus(*a):
    if not a:
        return 0.0
    if len(a) == 1:
        return -_fl(a[0])
    s = _fl(a[0])
    for x in a[1:]:
        s -= _fl(x)
    return s


def _times(*a):
    s = 1.0
    for x in a:
        s *= _fl(x)
    return s


def _chain(op):
    def f(*a):
        for x, y in zip(a, a[1:]):
            if not op(x, y):
                return False
        return True
    return f


def _jstring(*a):
    return b"".join(getbytes(x) if is_bytes(x) else describe_string(x) for x in a)


FNS = {
    "mod2": lambda x: _num(x) % 2,
    "half": lambda x: math.floor(_num(x) / 2),
    "neg": lambda x: 0.0 - _fl(x),     # (- x) is defined as 0 - x (so the negation of 0 is +0)
    "lt1": lambda x: jcmp_num(x, 1),
    "lt2": lambda x: jcmp_num(x, 2),
    "eq1": lambda x: jeq(x, 1),
    "is97": lambda x: jeq(x, 97),
    "dup": lambda x: (x, x),
    "rep": _rep,
    "wrap1": lambda x: Arr([x]),
    "evens": lambda x: x if _num(x) % 2 == 0 else None,
    "sub": lambda a, b: _fl(a) - _fl(b),
    "lin": lambda a, b: 3 * _fl(a) + _fl(b),
    "lin3": lambda a, b, c: 9 * _fl(a) + 3 * _fl(b) + _fl(c),
    "lin4": lambda a, b, c, d: 27 * _fl(a) + 9 * _fl(b) + 3 * _fl(c) + _fl(d),
    "lin5": lambda a, b, c, d, e: 81 * _fl(a) + 27 * _fl(b) + 9 * _fl(c) + 3 * _fl(d) + _fl(e),
    "lt-sum": lambda *xs: _plus(*xs) < 3,
    "mod2<": lambda a, b: _num(a) % 2 < _num(b) % 2,
    "half>": lambda a, b: math.floor(_num(a) / 2) > math.floor(_num(b) / 2),
    "first<": lambda a, b: jcmp_num(a[0], b[0]),
    "const-xy": lambda s: b"xy",
    "dbl": lambda s: getbytes(s) + getbytes(s),
    "empty-s": lambda s: b"",
    "retnum": lambda s: 42,
    "always": lambda *a: True,
    "never": lambda *a: False,
    "boom": _boom,
    # core
    "inc": lambda x: _fl(x) + 1,
    "dec": lambda x: _fl(x) - 1,
    "even?": lambda x: _num(x) % 2 == 0,
    "odd?": lambda x: _num(x) % 2 == 1,
    "pos?": lambda x: _num(x) > 0,
    "zero?": lambda x: _num(x) == 0,
    "identity": lambda x: x,
    "nil?": lambda x: x is None,
    "truthy?": lambda x: truthy(x),
    "not": lambda x: not truthy(x),
    "+": _plus,
    "-": _minus,
    "*": _times,
    "<": _chain(lambda a, b: jcmp_num(a, b)),
    ">": _chain(lambda a, b: jcmp_num(b, a)),
    "<=": _chain(lambda a, b: not jcmp_num(b, a)),
    ">=": _chain(lambda a, b: not jcmp_num(a, b)),
    "=": _chain(lambda a, b: jeq(a, b)),
    "tuple": lambda *a: tuple(a),
    "array": lambda *a: Arr(a),
    "string": _jstring,
    "string/ascii-upper": lambda s: ascii_upper(s),
    "max": lambda *a: max(a) if a else None,
    "min": lambda *a: min(a) if a else None,
}
