# C14 driver: evaluate one arithmetic / comparison / bitwise case on the real
# interpreter and print a canonical, exact rendering of the result.
#
# item  = [route op arg ...]
# route = :f   call the first-class function value (corelib.c bytecode body, register opcodes)
#         :i   compiled call site (fn [a b ...] (op a b ...)): the compiler emits the opcode inline
#         :k   compiled call site whose LAST argument is a literal small integer
#              (JOP_*_IMMEDIATE opcodes); the last arg must be [:k int]
#         :m   direct method call  ((get a (keyword op)) a b ...)  -- op is the method name
# arg   = [:n hi lo]   number with exactly these IEEE-754 bits (no text->double conversion involved)
#         [:s "dec"]   (int/s64 "dec")        [:u "dec"]   (int/u64 "dec")
#         [:t "text"]  the string itself      [:k int]     literal integer (route :k only)
# out   = n<16 hex digits> | s<dec> | u<dec> | true | false | nil | ?<type>    or   E <message>
#         X <text>  an in-range decimal string could not be boxed (operand construction failed)
#
# Errors are caught here so that one process handles thousands of cases; a crash
# (signal) is attributed to the item by the batch runner.

(use prelude)

(def ops
  @{"+" + "-" - "*" * "/" / "div" div "mod" mod "%" %
    "band" band "bor" bor "bxor" bxor "bnot" bnot
    "blshift" blshift "brshift" brshift "brushift" brushift
    "<" < "<=" <= ">" > ">=" >= "=" = "not=" not=
    "compare" compare "compare=" compare= "compare<" compare< "compare<=" compare<=
    "compare>" compare> "compare>=" compare>= "cmp" cmp
    "min" min "max" max
    "zero?" zero? "pos?" pos? "neg?" neg? "one?" one? "even?" even? "odd?" odd?
    "inc" inc "dec" dec
    "int/s64" int/s64 "int/u64" int/u64 "int/to-number" int/to-number
    "sum" (fn [& xs] (sum xs)) "product" (fn [& xs] (product xs))
    "min-of" (fn [& xs] (min-of xs)) "max-of" (fn [& xs] (max-of xs))})

(def inl-cache @{})
(def params '[a b c d])

(defn inl [op n]
  (def key [op n])
  (or (in inl-cache key)
      (let [ps (tuple/brackets ;(tuple/slice params 0 n))
            f (eval ~(fn ,ps (,(symbol op) ,;(tuple/slice params 0 n))))]
        (put inl-cache key f)
        f)))

(defn inl-imm [op n k]
  (def key [op n k])
  (or (in inl-cache key)
      (let [ps (tuple/brackets ;(tuple/slice params 0 n))
            f (eval ~(fn ,ps (,(symbol op) ,;(tuple/slice params 0 n) ,k)))]
        (put inl-cache key f)
        f)))

(defn- box [f a]
  # the decimal strings sent by the check are always in range: a failure here is a defect of the
  # string conversion itself, reported as outcome "X ..." (not a harness error)
  (try (f (in a 1))
    ([e] (error [:operand (string (in a 0) " " (in a 1) ": " e)]))))

(defn mk [a]
  (case (in a 0)
    :n (verif/bits-to-double (in a 1) (in a 2))
    :s (box int/s64 a)
    :u (box int/u64 a)
    :t (in a 1)
    (error "bad arg descriptor")))

(defn render [x]
  (case (type x)
    :number (string "n" (verif/double-to-bits x))
    :core/s64 (string "s" x)
    :core/u64 (string "u" x)
    :boolean (if x "true" "false")
    :nil "nil"
    (string "?" (type x))))

(defn prepare
  "-> thunk that performs exactly the operation (operands already built)"
  [item]
  (def route (in item 0))
  (def op (in item 1))
  (def n (- (length item) 2))
  (case route
    :f (let [f (or (in ops op) (error (string "unknown op " op)))
             args (map mk (tuple/slice item 2))]
         (fn [] (f ;args)))
    :i (let [f (inl op n)
             args (map mk (tuple/slice item 2))]
         (fn [] (f ;args)))
    :k (let [k (in (last item) 1)
             f (inl-imm op (- n 1) k)
             args (map mk (tuple/slice item 2 -2))]
         (fn [] (f ;args)))
    :m (let [args (map mk (tuple/slice item 2))]
         (fn []
           (def m (get (in args 0) (keyword op)))
           (if (nil? m) (error "no such method"))
           (m ;args)))
    (error "bad route")))

(batch-run
  (fn [item]
    # building the operands is outside the protected region: a failure there is a
    # harness problem (status ERR), never an outcome ("E ...", status OK)
    (def p (protect (prepare item)))
    (if (in p 0)
      (let [r (protect ((in p 1)))]
        (if (in r 0)
          (render (in r 1))
          (string "E " (string/replace-all "\n" " " (string (in r 1))))))
      (let [e (in p 1)]
        (if (and (tuple? e) (= :operand (get e 0)))
          (string "X " (in e 1))
          (error e))))))
