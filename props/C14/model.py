"""Reference model for C14: arithmetic, comparison and bitwise operators on
numbers (IEEE-754 doubles), boxed int/s64, int/u64 and numeric strings.

Values are tagged tuples:
    ('n', float)   ('s', int in [-2^63, 2^63))   ('u', int in [0, 2^64))   ('t', str)
Results additionally: ('b', bool), ('nil',).
`Err` = the operation must raise.  `Undef` = the case leaves C behaviour
undefined / outside the property (the enumerator must not count it).

Everything is Python big-int / float / Fraction arithmetic; nothing here
calls into janet.  stdlib only.
"""
import math
import struct
from fractions import Fraction

M64 = 1 << 64
S64_MIN = -(1 << 63)
S64_MAX = (1 << 63) - 1
U64_MAX = M64 - 1
TWO53 = 1 << 53
NAN = float("nan")
INF = float("inf")


class Err(Exception):
    """the operation must raise an error"""


class Undef(Exception):
    """outside the property: C leaves it undefined or the docs are silent"""


class Either(Exception):
    """the property allows several outcomes: .allowed lists them, each 'E' (raise) or a tagged value"""

    def __init__(self, allowed):
        Exception.__init__(self, str(allowed))
        self.allowed = allowed
        global either_hits
        either_hits += 1


either_hits = 0


# ---------------------------------------------------------------- rendering

def bits(x):
    return struct.unpack(">Q", struct.pack(">d", x))[0]


def from_bits(b):
    return struct.unpack(">d", struct.pack(">Q", b))[0]


def render(v):
    """same text as driver.janet's render; all NaNs render alike"""
    k = v[0]
    if k == "n":
        x = v[1]
        if x != x:
            return "nNAN"
        return "n%016x" % bits(x)
    if k == "s":
        return "s%d" % v[1]
    if k == "u":
        return "u%d" % v[1]
    if k == "b":
        return "true" if v[1] else "false"
    if k == "nil":
        return "nil"
    raise ValueError(v)


def normalise_observed(text):
    """driver output -> comparable text (NaN payload/sign are not part of the property)"""
    if text.startswith("n") and len(text) == 17:
        b = int(text[1:], 16)
        if (b >> 52) & 0x7FF == 0x7FF and b & ((1 << 52) - 1):
            return "nNAN"
        return text
    if text.startswith("E ") or text == "E":
        return "E"
    return text


def to_s(x):
    x &= U64_MAX
    return x - M64 if x >> 63 else x


def to_u(x):
    return x & U64_MAX


def wrap(T, x):
    return (T, to_s(x) if T == "s" else to_u(x))


# ---------------------------------------------------------------- numeric strings (strtod.c scan_uint64)

def _digit(c):
    if "0" <= c <= "9":
        return ord(c) - 48
    if "a" <= c <= "z":
        return ord(c) - 97 + 10
    if "A" <= c <= "Z":
        return ord(c) - 65 + 10
    return 99


def scan_int_text(t):
    """-> (neg, magnitude) or None. Re-statement of the 64-bit integer literal grammar:
    [+-] [0x | D r | DD r] digits-with-underscores, value <= 2^64-1."""
    if len(t) > 150 or len(t) == 0:
        return None
    i = 0
    neg = False
    if t[0] == "-":
        neg = True
        i = 1
    elif t[0] == "+":
        i = 1
    base = 10
    r = t[i:]
    if len(r) >= 2 and r[0] == "0" and r[1] == "x":
        base = 16
        r = r[2:]
    elif len(r) >= 2 and r[0].isdigit() and r[0].isascii() and r[1] == "r":
        base = int(r[0])
        r = r[2:]
    elif len(r) >= 3 and r[0] in "0123456789" and r[1] in "0123456789" and r[2] == "r":
        base = int(r[:2])
        if base < 2 or base > 36:
            return None
        r = r[3:]
    seen = False
    acc = 0
    for c in r:
        if c == "_":
            if not seen:
                return None
            continue
        if ord(c) > 127:
            return None
        d = _digit(c)
        if d >= base:
            return None
        acc = acc * base + d
        if acc > U64_MAX:
            return None
        seen = True
    if not seen:
        return None
    return neg, acc


# ---------------------------------------------------------------- conversion to a 64-bit integer type

def unwrap(T, v):
    """value v used as an operand of a T ('s'|'u') method. Raises Err if it does not fit."""
    k = v[0]
    if k in "su":
        # the 64 bits are reinterpreted, never range-checked
        return to_s(v[1]) if T == "s" else to_u(v[1])
    if k == "n":
        d = v[1]
        if d != d:
            raise Err("nan")
        if T == "s":
            if not (-TWO53 <= d <= TWO53) or d != math.floor(d):
                raise Err("number out of range for s64")
        else:
            if not (0 <= d <= TWO53) or d != math.floor(d):
                raise Err("number out of range for u64")
        return int(d)
    if k == "t":
        p = scan_int_text(v[1])
        if p is None:
            raise Err("not an integer literal")
        neg, mag = p
        if T == "s":
            if neg and mag <= (1 << 63):
                return -mag
            if not neg and mag <= S64_MAX:
                return mag
            raise Err("string out of range for s64")
        if neg:
            raise Err("negative string for u64")
        return mag
    raise Err("bad operand")


def construct(T, v):
    """(int/s64 v) / (int/u64 v)"""
    return (T, unwrap(T, v))


def to_number(v):
    """(int/to-number v): |v| <= 2^53 else error"""
    if v[0] == "s":
        if v[1] > TWO53 or v[1] < -TWO53:
            raise Err("out of range")
        return ("n", float(v[1]))
    if v[0] == "u":
        if v[1] > TWO53:
            raise Err("out of range")
        return ("n", float(v[1]))
    raise Err("not a boxed integer")


# ---------------------------------------------------------------- 64-bit integer operators

SHIFTS = ("blshift", "brshift", "brushift")
INT_OPS = ("+", "-", "*", "/", "div", "mod", "%", "band", "bor", "bxor") + SHIFTS


def _trunc_div(x, y):
    q = abs(x) // abs(y)
    return -q if (x < 0) != (y < 0) else q


def int_op(op, T, x, y):
    """x op y on two already-unwrapped mathematical integers of type T; result wrapped to T."""
    if op == "+":
        return wrap(T, x + y)
    if op == "-":
        return wrap(T, x - y)
    if op == "*":
        return wrap(T, x * y)
    if op == "band":
        return wrap(T, to_u(x) & to_u(y))
    if op == "bor":
        return wrap(T, to_u(x) | to_u(y))
    if op == "bxor":
        return wrap(T, to_u(x) ^ to_u(y))
    if op in SHIFTS:
        n = to_u(y)
        if n > 63:
            raise Undef("shift count outside 0..63")
        if op == "blshift":
            return wrap(T, to_u(x) << n)
        if op == "brshift":
            # sign-propagating for s64 (x is negative there), logical for u64
            return wrap(T, x >> n)
        # brushift: docstring: "The sign of x is not preserved, so for positive shifts the
        # return value will always be positive" -> logical shift of the 64-bit pattern
        return wrap(T, to_u(x) >> n)
    if op in ("/", "%", "div"):
        if y == 0:
            raise Err("division by zero")
    if T == "s" and x == S64_MIN and y == -1:
        # the quotient 2^63 does not fit. `/` and `%` raise (implementation convention,
        # the statement allows it: "raise an error ... on operands that do not fit");
        # for div/mod the statement allows wrapping or an error, never a crash.
        if op in ("/", "%"):
            raise Err("INT64_MIN / -1")
        if op == "div":
            raise Either(["E", ("s", S64_MIN)])
        if op == "mod":
            raise Either(["E", ("s", 0)])
    if op == "/":
        return wrap(T, _trunc_div(x, y))
    if op == "%":
        return wrap(T, x - y * _trunc_div(x, y))
    if op == "div":
        return wrap(T, x // y)
    if op == "mod":
        if y == 0:
            return wrap(T, x)
        return wrap(T, x % y)       # Python: floored, sign of the divisor
    raise ValueError(op)


# ---------------------------------------------------------------- number (double) operators

def _isint32(d):
    return d == d and -2147483648 <= d <= 2147483647 and d == math.floor(d)


def _isuint32(d):
    return d == d and 0 <= d <= 4294967295 and d == math.floor(d)


def _s32(x):
    x &= 0xFFFFFFFF
    return x - (1 << 32) if x >> 31 else x


def fdiv(x, y):
    """IEEE-754 division"""
    if x != x or y != y:
        return NAN
    if y == 0:
        if x == 0:
            return NAN
        neg = (math.copysign(1, x) < 0) != (math.copysign(1, y) < 0)
        return -INF if neg else INF
    if math.isinf(x) and math.isinf(y):
        return NAN
    return x / y


def ffloor(q):
    if q != q or math.isinf(q) or q == 0:
        return q
    f = math.floor(q)              # exact big int
    if f == 0:
        return 0.0                 # floor of (0,1) is +0
    return float(f)                # |q| >= 1 here, f is exactly representable (q integral or < 2^52)


def ffmod(x, y):
    """C fmod via exact rationals: x - trunc(x/y)*y, sign of x, exact"""
    if x != x or y != y or math.isinf(x) or y == 0:
        return NAN
    if math.isinf(y) or x == 0:
        return x
    fx, fy = Fraction(x), Fraction(y)
    q = fx / fy
    t = q.numerator // q.denominator if q >= 0 else -((-q.numerator) // q.denominator)
    r = fx - t * fy
    if r == 0:
        return math.copysign(0.0, x)
    out = float(r)
    assert Fraction(out) == r
    return out


def fmul(x, y):
    return x * y


def num_op(op, x, y):
    """both operands ordinary numbers"""
    if op == "+":
        return ("n", x + y)
    if op == "-":
        return ("n", x - y)
    if op == "*":
        return ("n", x * y)
    if op == "/":
        return ("n", fdiv(x, y))
    if op == "div":
        return ("n", ffloor(fdiv(x, y)))
    if op == "mod":
        if y == 0:
            return ("n", x)
        intres = y * ffloor(fdiv(x, y))
        return ("n", x - intres)
    if op == "%":
        return ("n", ffmod(x, y))
    if op in ("band", "bor", "bxor", "blshift", "brshift"):
        if not _isint32(x) or not _isint32(y):
            raise Err("not a 32-bit signed integer")
        a, b = int(x), int(y)
        if op == "band":
            return ("n", float(_s32(a & b)))
        if op == "bor":
            return ("n", float(_s32(a | b)))
        if op == "bxor":
            return ("n", float(_s32(a ^ b)))
        if not (0 <= b <= 31):
            raise Undef("32-bit shift count outside 0..31")
        if op == "blshift":
            return ("n", float(_s32(a << b)))
        return ("n", float(a >> b))
    if op == "brushift":
        if not _isuint32(x) or not _isint32(y):
            raise Err("not in range")
        a, b = int(x), int(y)
        if not (0 <= b <= 31):
            raise Undef("32-bit shift count outside 0..31")
        return ("n", float(a >> b))
    raise ValueError(op)


# ---------------------------------------------------------------- dispatch (vm.c: left method, then reversed right method)

def binop(op, a, b):
    ka, kb = a[0], b[0]
    if ka == "n" and kb == "n":
        return num_op(op, a[1], b[1])
    if ka in "su":
        T = ka
    elif kb in "su":
        if op in SHIFTS:
            raise Err("no reversed shift method")
        T = kb
    else:
        raise Err("no method on a number/string operand")
    # either conversion failing is an error; so is division by zero: order irrelevant
    e = None
    try:
        x = unwrap(T, a)
    except Err as ex:
        e = ex
    try:
        y = unwrap(T, b)
    except Err as ex:
        e = ex
    if e:
        raise e
    return int_op(op, T, x, y)


UNARY_SEED = {"+": 0, "-": 0, "*": 1, "/": 1, "div": 1, "mod": 1, "%": 1, "band": -1, "bor": 0, "bxor": 0,
              "blshift": 1, "brshift": 1, "brushift": 1}
NULLARY = {"+": 0, "-": 0, "*": 1, "/": 1, "div": 1, "mod": 0, "%": 0, "band": -1, "bor": 0, "bxor": 0,
           "blshift": 1, "brshift": 1, "brushift": 1}


def fold(step, acc, rest):
    """left fold with `step`; -> set of allowed final outcomes ('E' or tagged values)"""
    if not rest:
        return {acc}
    try:
        r = step(acc, rest[0])
    except Err:
        return {"E"}
    except Either as e:
        out = set()
        for alt in e.allowed:
            if alt == "E":
                out.add("E")
            else:
                out |= fold(step, alt, rest[1:])
        return out
    return fold(step, r, rest[1:])


def varop(op, args):
    """(op ;args) as documented: left fold; one argument = seed op x. -> set of allowed outcomes"""
    if len(args) == 0:
        return {("n", float(NULLARY[op]))}
    if len(args) == 1:
        args = [("n", float(UNARY_SEED[op])), args[0]]
    return fold(lambda a, b: binop(op, a, b), args[0], list(args[1:]))


def bnot(a):
    if a[0] == "n":
        if not _isint32(a[1]):
            raise Undef("bnot of a number outside the 32-bit range")
        return ("n", float(~int(a[1])))
    if a[0] in "su":
        return wrap(a[0], ~a[1])
    raise Err("no method")


# ---------------------------------------------------------------- comparisons

def _exact(v):
    """mathematical value for ordering; floats stay floats (Python compares int/float exactly)"""
    return v[1]


def math_cmp(a, b):
    x, y = _exact(a), _exact(b)
    return -1 if x < y else (1 if x > y else 0)


TYPE_RANK = {"n": 0, "t": 4, "s": 14, "u": 14}


class PrimOrder:
    """janet_compare restricted to numbers / strings / boxed ints. The order between the two
    boxed types is implementation-defined (address of the type descriptors): `su` is the
    sign of (s64 value) vs (u64 value), fixed per build, calibrated by the check."""

    def __init__(self, su=None):
        self.su = su

    def cmp(self, a, b):
        ka, kb = a[0], b[0]
        if ka == "n" and kb == "n":
            x, y = a[1], b[1]
            if x == y:
                return 0
            return -1 if x < y else 1        # NaN: neither == nor < -> 1
        if ka in "su" and kb in "su":
            if ka == kb:
                return math_cmp(a, b)
            if self.su is None:
                raise Undef("s64/u64 primitive order not calibrated")
            return self.su if ka == "s" else -self.su
        if ka == "t" and kb == "t":
            x, y = a[1].encode("latin-1"), b[1].encode("latin-1")
            return -1 if x < y else (1 if x > y else 0)
        ra, rb = TYPE_RANK[ka], TYPE_RANK[kb]
        return -1 if ra < rb else 1

    def equals(self, a, b):
        ka, kb = a[0], b[0]
        if ka != kb:
            return False
        return a[1] == b[1]               # nan != nan, -0 == 0

    def primop(self, op, a, b):
        """one step of < <= > >= = not="""
        if op == "=":
            return self.equals(a, b)
        if op == "not=":
            return not self.equals(a, b)
        if a[0] == "n" and b[0] == "n":
            x, y = a[1], b[1]
            return {"<": x < y, "<=": x <= y, ">": x > y, ">=": x >= y}[op]
        c = self.cmp(a, b)
        return {"<": c < 0, "<=": c <= 0, ">": c > 0, ">=": c >= 0}[op]

    def chain(self, op, args):
        """variadic comparator: true iff every adjacent pair satisfies op (not= : some pair differs...
        corelib: not= is the inverted = chain)"""
        if len(args) < 2:
            return ("b", op != "not=")
        if op == "not=":
            for x, y in zip(args, args[1:]):
                if not self.equals(x, y):
                    return ("b", True)
            return ("b", False)
        for x, y in zip(args, args[1:]):
            if not self.primop(op, x, y):
                return ("b", False)
        return ("b", True)

    def extreme(self, op, args):
        """min (op '<') / max (op '>') : boot.janet do-extreme"""
        if not args:
            return ("nil",)
        ret = args[0]
        for x in args[1:]:
            if self.primop(op, x, ret):
                ret = x
        return ret

    # ---- polymorphic compare (boot.janet do-compare + inttypes.c compare methods)
    def compare(self, a, b):
        """-> int (sign), exact over the mathematical values"""
        ka, kb = a[0], b[0]
        if ka in "su":
            if kb in "su":
                return math_cmp(a, b)
            if kb == "n":
                if b[1] != b[1]:
                    return 0              # convention: NaN compares 0 with a boxed integer
                return math_cmp(a, b)
            return self.cmp(a, b)         # strings are not numbers for compare: type order
        if kb in "su":
            if ka == "n":
                if a[1] != a[1]:
                    return 0
                return math_cmp(a, b)
            return self.cmp(a, b)
        return self.cmp(a, b)

    def compare_chain(self, op, args):
        """compare= compare< ... : boot.janet compare-reduce"""
        rel = {"compare=": lambda c: c == 0, "compare<": lambda c: c < 0, "compare<=": lambda c: c <= 0,
               "compare>": lambda c: c > 0, "compare>=": lambda c: c >= 0}[op]
        if not args:
            return ("b", True)
        x = args[0]
        for y in args[1:]:
            if rel(self.compare(x, y)):
                x = y
            else:
                return ("b", False)
        return ("b", True)
