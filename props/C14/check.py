#!/usr/bin/env python3
"""C14 -- arithmetic on numbers and 64-bit integers is exact and consistently defined.

Exhaustive products of boundary-dense operand alphabets x operators x operand
orders x type mixes x call routes, every case evaluated on the real interpreter
(vjanet `fast`) and compared against the Python big-int / IEEE model in model.py.
See NOTES.md for the conventions and findings.
"""
import math
import os
import sys
from itertools import product

sys.path.insert(0, os.path.join(os.path.dirname(os.path.abspath(__file__)), "..", "..", "engine", "mc"))
from core import *  # noqa: E402,F401

HERE = os.path.dirname(os.path.abspath(__file__))
sys.path.insert(0, HERE)
import model as M  # noqa: E402

DRIVER = os.path.join(HERE, "driver.janet")


def P(k):
    return 1 << k


# ------------------------------------------------------------------ values

def N(x):
    return ("n", float(x))


def S(x):
    assert M.S64_MIN <= x <= M.S64_MAX, x
    return ("s", x)


def U(x):
    assert 0 <= x <= M.U64_MAX, x
    return ("u", x)


def T(x):
    return ("t", x)


def uniq(xs):
    seen, out = set(), []
    for x in xs:
        k = (x[0], M.render(x) if x[0] != "t" else x[1])
        if k not in seen:
            seen.add(k)
            out.append(x)
    return out


def splitmix(n, seed=0x9E3779B97F4A7C15):
    """fixed 64-bit patterns (the property's "random 64-bit patterns": a fixed, stated list)"""
    out, x = [], seed
    for _ in range(n):
        x = (x + 0x9E3779B97F4A7C15) & M.U64_MAX
        z = x
        z = ((z ^ (z >> 30)) * 0xBF58476D1CE4E5B9) & M.U64_MAX
        z = ((z ^ (z >> 27)) * 0x94D049BB133111EB) & M.U64_MAX
        out.append(z ^ (z >> 31))
    return out


PATTERNS = [0x123456789ABCDEF0, 0xDEADBEEFCAFEBABE, 0xAAAAAAAAAAAAAAAA, 0x5555555555555555]


def s_values(ks, patterns):
    xs = [0, 1, -1, 2, -2, 3, 7, -7]
    for k in ks:
        for v in (P(k) - 1, P(k), P(k) + 1, -P(k) + 1, -P(k), -P(k) - 1):
            if M.S64_MIN <= v <= M.S64_MAX:
                xs.append(v)
    xs += [M.S64_MAX, M.S64_MAX - 1, M.S64_MIN, M.S64_MIN + 1]
    xs += [M.to_s(p) for p in patterns]
    return uniq([S(x) for x in xs])


def u_values(ks, patterns):
    xs = [0, 1, 2, 3, 7]
    for k in ks:
        for v in (P(k) - 1, P(k), P(k) + 1):
            if 0 <= v <= M.U64_MAX:
                xs.append(v)
    xs += [M.U64_MAX, M.U64_MAX - 1, M.U64_MAX - 6, P(63) - 1, P(63), P(63) + 1]
    xs += list(patterns)
    return uniq([U(x) for x in xs])


def n_int_values(ks):
    """numbers around the powers of two: exact neighbours below 2^53, adjacent doubles above"""
    xs = [0.0, -0.0, 1.0, -1.0, 2.0, -2.0, 3.0, 7.0, -7.0]
    for k in ks:
        p = float(P(k))
        if k < 53:
            nb = [p - 1, p, p + 1]
        else:
            nb = [math.nextafter(p, 0.0), p, math.nextafter(p, math.inf)]
        for v in nb:
            xs += [v, -v]
    return xs


N_SPECIAL = [0.5, -0.5, -2.5, math.inf, -math.inf, math.nan]

T_CORE = ["0", "1", "-1", "2", "-2", "3", "7", "-7", "63", "64", "2147483648", "4294967297",
          "9007199254740993", "9223372036854775807", "9223372036854775808", "-9223372036854775808",
          "-9223372036854775809", "18446744073709551615", "18446744073709551616", "0x10", "-0x1",
          "0xffffffffffffffff", "0x8000000000000000", "1_000", "+5", "-0", "", "abc", "1.5", "1e3", " 1",
          "16rff", "2r101", "-", "_1", "0x"]


# ------------------------------------------------------------------ items and replays

def desc(v):
    k = v[0]
    if k == "n":
        x = v[1]
        b = 0x7FF8000000000000 if x != x else M.bits(x)
        return "[:n %d %d]" % (b >> 32, b & 0xFFFFFFFF)
    if k == "s":
        return '[:s "%d"]' % v[1]
    if k == "u":
        return '[:u "%d"]' % v[1]
    if k == "t":
        return "[:t %s]" % jdn(v[1])
    raise ValueError(v)


def item(route, op, args, imm=None):
    parts = ["[:%s %s" % (route, jdn(op))]
    parts += [desc(a) for a in args]
    if imm is not None:
        parts.append("[:k %d]" % imm)
    return " ".join(parts) + "]"


def lit(v):
    """Janet source for a value, for stand-alone replay files"""
    k = v[0]
    if k == "n":
        x = v[1]
        if x != x:
            return "math/nan"
        if x == math.inf:
            return "math/inf"
        if x == -math.inf:
            return "math/-inf"
        if x == 0 and math.copysign(1, x) < 0:
            return "(* 0 -1)"
        if x == math.floor(x) and abs(x) < 2 ** 63:
            return "%d" % int(x)
        return repr(x)
    if k == "s":
        return '(int/s64 "%d")' % v[1]
    if k == "u":
        return '(int/u64 "%d")' % v[1]
    return jdn(v[1])


LIST_OPS = {"sum": "sum", "product": "product", "min-of": "min-of", "max-of": "max-of"}


def replay_src(route, op, args, imm, expected, got):
    names = "abcd"[:len(args)]
    binds = "\n".join("(def %s %s)" % (n, lit(a)) for n, a in zip(names, args))
    if op in LIST_OPS:
        call = "(%s [%s])" % (op, " ".join(names))
    elif route == "f":
        call = "(apply %s [%s])" % (op, " ".join(names))
    elif route == "i":
        call = "((fn [%s] (%s %s)) %s)" % (" ".join(names), op, " ".join(names), " ".join(names))
    elif route == "k":
        call = "((fn [%s] (%s %s %d)) %s)" % (" ".join(names), op, " ".join(names), imm, " ".join(names))
    else:
        call = "((get a :%s) %s)" % (op, " ".join(names))
    return ("%s\n(def r (protect %s))\n"
            "(printf \"raised=%%v value=%%v type=%%v\" (not (r 0)) (r 1) (type (r 1)))\n"
            "# expected: %s\n# observed by the check: %s\n"
            "# rendering: n<hex> = double bits, s/u<dec> = int/s64, int/u64, E = must raise\n"
            % (binds, call, " or ".join(sorted(expected)), got))


# ------------------------------------------------------------------ evaluation

class Case:
    __slots__ = ("route", "op", "args", "imm", "exp", "tag")

    def __init__(self, route, op, args, exp, imm=None, tag=None):
        self.route, self.op, self.args, self.imm, self.exp, self.tag = route, op, args, imm, exp, tag


def _r(v):
    return v if v == "E" else M.render(v)


def expect(fn):
    """run the model; -> frozenset of allowed renderings, or None if the case is outside the property.
    fn returns a tagged value or a set of allowed outcomes."""
    try:
        v = fn()
    except M.Err:
        return E_ONLY
    except M.Either as e:
        return frozenset(_r(a) for a in e.allowed)
    except M.Undef:
        return None
    if isinstance(v, (set, frozenset)):
        return frozenset(_r(a) for a in v)
    return frozenset([M.render(v)])


E_ONLY = frozenset(["E"])


def kinds(args, imm):
    s = ",".join(a[0] for a in args)
    return s + (",k" if imm is not None else "")


METHODS = {"+": "+", "r+": "+", "-": "-", "r-": "-", "*": "*", "r*": "*", "/": "/", "r/": "/", "div": "div",
           "rdiv": "div", "mod": "mod", "rmod": "mod", "%": "%", "r%": "%", "&": "band", "r&": "band", "|": "bor",
           "r|": "bor", "^": "bxor", "r^": "bxor", "<<": "blshift", ">>": "brshift"}
INVERTED = ("r-", "r/", "rdiv", "rmod", "r%")
VARIADIC_METHODS = {"s": ("+", "r+", "-", "*", "r*", "/", "%", "&", "r&", "|", "r|", "^", "r^", "<<", ">>"),
                    "u": ("+", "r+", "-", "*", "r*", "/", "div", "mod", "%", "&", "r&", "|", "r|", "^", "r^", "<<", ">>")}
COMPARE_FAMILY = ("compare", "compare=", "compare<", "compare<=", "compare>", "compare>=", "zero?", "pos?", "neg?", "one?")


def finding_sig(c, got):
    """dedicated, stable signatures for the root causes present on the unchanged tree (NOTES.md F1-F4).
    Everything else gets a generic signature that carries the first failing case of its group."""
    op, args = c.op, c.args
    # F1: INT64_MIN div/mod -1 through the s64 methods: SIGFPE
    if got == "CRASH" and c.tag == "int64min":
        return "s64-%s-INT64_MIN-by-minus1:crash" % METHODS.get(op, op)
    if op in COMPARE_FAMILY:
        pairs = list(zip(args, args[1:])) if len(args) > 1 else [(args[0], N(0.0)), (args[0], N(1.0))]
        # F2: compare of a boxed integer with the double 2^63 (s64) / 2^64 (u64)
        for a, b in pairs:
            for x, y in ((a, b), (b, a)):
                if x[0] == "s" and y[0] == "n" and y[1] == 2.0 ** 63:
                    return "compare-family:s64-vs-double-2^63"
                if x[0] == "u" and y[0] == "n" and y[1] == 2.0 ** 64:
                    return "compare-family:u64-vs-double-2^64"
        # F4: (compare x boxed) raises when x has no compare method and the boxed integer's method declines
        if got == "E":
            for a, b in pairs:
                if a[0] == "t" and b[0] in "su":
                    return "compare:non-number-left-of-boxed-int:raises"
    if got == "X":
        return "operand-construction:int/s64-or-u64-of-in-range-decimal-string:raises"
    # F3: brushift on a negative int/s64 keeps the sign (it is dispatched to the :>> method)
    if op == "brushift" and args and args[0][0] == "s" and args[0][1] < 0 and got.startswith("s-"):
        return "brushift:s64-negative:sign-preserved"
    return None


CMP_BITS = {"nbff0000000000000": "CMP-1", "n0000000000000000": "CMP0", "n8000000000000000": "CMP0",
            "n3ff0000000000000": "CMP1"}
ZEROS = ("n0000000000000000", "n8000000000000000")

_desc_cache = {}


def vkey(v):
    """hashable identity of a value that keeps -0 and 0 apart and all NaNs together"""
    return (v[0], M.render(v)) if v[0] != "t" else v


def cdesc(v):
    if v[0] == "n":
        return desc(v)
    d = _desc_cache.get(v)
    if d is None:
        d = _desc_cache[v] = desc(v)
    return d


def citem(c):
    parts = ["[:%s %s" % (c.route, jdn(c.op))]
    parts += [cdesc(a) for a in c.args]
    if c.imm is not None:
        parts.append("[:k %d]" % c.imm)
    return " ".join(parts) + "]"


class Runner:
    def __init__(self, chk):
        self.chk = chk
        self.groups = {}

    def part(self, name, block=120000):
        return Part(self, name, block)

    def flush(self, part, cases):
        chk = self.chk
        items = [citem(c) for c in cases]
        res = run_batch("fast", DRIVER, items, chunk=3000, timeout=120)
        nviol = 0
        outs = part.outs
        for c, it, (status, text) in zip(cases, items, res):
            if status == "OK":
                got = M.normalise_observed(text)
                if got.startswith("X "):
                    got = "X"
                if c.op == "compare" and got in CMP_BITS:
                    got = CMP_BITS[got]     # -1 / 0 / 1 as numbers; the sign of a zero is not specified
            elif status == "ERR":
                raise HarnessError("driver failed to build the operands of %s: %s" % (it, text))
            else:
                got = status            # CRASH / TIMEOUT
            outs.add(got)
            if got in c.exp:
                continue
            if c.op == "-" and len(c.args) == 1 and c.route == "i":
                # the compiler emits (- x) as x * -1 (cfuns.c opreduce); the first-class function computes
                # 0 - x. They differ for x = +0 (sign of the zero) and for int/u64 (-1 does not convert).
                # Route equivalence is property C15's subject; C14 accepts both here (NOTES conventions).
                x = c.args[0]
                if x[0] == "n" and x[1] == 0 and got in ZEROS:
                    continue
                if x[0] == "u" and got == "E":
                    continue
            nviol += 1
            sig = finding_sig(c, got)
            if sig is None:
                cls = ("crash" if got in ("CRASH", "TIMEOUT") else "raised-instead-of-value" if got == "E"
                       else "value-instead-of-error" if c.exp == E_ONLY else "wrong-value")
                gkey = (part.name.split(":")[0], c.op, cls)
                sig = self.groups.get(gkey)
                if sig is None:
                    vals = ",".join(M.render(a) if a[0] != "t" else "t" + repr(a[1]) for a in c.args)
                    sig = "%s:%s:%s:%s:%s%s" % (part.name.split(":")[0], c.op, c.route, cls, vals,
                                                (",k%d" % c.imm) if c.imm is not None else "")
                    self.groups[gkey] = sig
            what = "%s route=%s args=%s%s: expected %s, observed %s%s" % (
                c.op, c.route, " ".join(lit(a) for a in c.args), (" imm=%d" % c.imm) if c.imm is not None else "",
                " or ".join(sorted(c.exp)), got, (" (%s)" % text[:200]) if status != "OK" or got in ("E", "X") else "")
            chk.violation(sig=sig, what=what, replay_text=replay_src(c.route, c.op, c.args, c.imm, c.exp, got),
                          replay_cmd="janet <this file>")
        chk.add(evaluations=len(cases), transitions=len(cases), states=len(cases))
        part.n += len(cases)
        part.viol += nviol


class Part:
    """one sub-check: cases are produced by the enumerator, judged by the model once per operand tuple,
    and flushed to the interpreter in blocks (memory stays bounded)"""

    def __init__(self, run, name, block):
        self.run, self.name, self.block = run, name, block
        self.cases = []
        self.n = 0
        self.viol = 0
        self.skipped = 0
        self.outs = set()
        self.first = None
        self.last = None

    def add(self, routes, op, args, fn, imm=None):
        h = M.either_hits
        e = expect(fn)
        if e is None:
            self.skipped += 1
            return
        tag = "int64min" if M.either_hits != h else None     # the model met INT64_MIN div/mod -1
        for r in routes:
            self.cases.append(Case(r, op, args, e, imm, tag))
        if len(self.cases) >= self.block:
            self.flush()

    def add_exp(self, routes, op, args, exp, imm=None):
        for r in routes:
            self.cases.append(Case(r, op, args, exp, imm, None))
        if len(self.cases) >= self.block:
            self.flush()

    def flush(self):
        if not self.cases:
            return
        if self.first is None:
            self.first = self.cases[0]
        self.last = self.cases[-1]
        self.run.flush(self, self.cases)
        self.cases = []

    def close(self, **extra):
        self.flush()
        chk = self.run.chk
        for o in self.outs:
            chk.outcome(self.name.split(":")[0] + "|" + o)
        chk.part(self.name, cases=self.n, distinct_outcomes=len(self.outs), mismatches=self.viol,
                 skipped_undefined=self.skipped, **extra)
        for c in (self.first, self.last):
            if c is not None:
                chk.sample({"part": self.name, "item": citem(c), "expected": sorted(c.exp)}, limit=60)
        sys.stdout.write("  part %-24s cases=%-9d outcomes=%-7d skipped_undefined=%-6d mismatches=%-6d t=%.0fs\n" % (
            self.name, self.n, len(self.outs), self.skipped, self.viol, chk.elapsed()))
        sys.stdout.flush()
        if self.n and len(self.outs) < 2:
            raise HarnessError("part %s is vacuous: a single distinct outcome" % self.name)


# ------------------------------------------------------------------ parts

ARITH = ["+", "-", "*", "/", "div", "mod", "%"]
BITS2 = ["band", "bor", "bxor"]
SHIFTS = list(M.SHIFTS)
IMM_ARITH = ["+", "-", "*", "/"]
PRIMS = ["<", "<=", ">", ">=", "=", "not="]
CMPCHAIN = ["compare=", "compare<", "compare<=", "compare>", "compare>="]
FI = ("f", "i")


def part_int_binary(chk, run, name, boxed, others, skip_pairs=None):
    """every non-shift binary operator, every pairing with at least one boxed operand, both orders.
    skip_pairs: set of pairs already covered by a smaller bound."""
    pairs = [(a, b) for a in boxed for b in boxed + others] + [(a, b) for a in others for b in boxed]
    if skip_pairs:
        pairs = [p for p in pairs if (vkey(p[0]), vkey(p[1])) not in skip_pairs]
    for op in ARITH + BITS2:
        pt = run.part("%s:%s" % (name, op))
        for a, b in pairs:
            pt.add(FI, op, (a, b), (lambda: M.binop(op, a, b)))
        pt.close()
    chk.part(name, pairs=len(pairs), boxed_values=len(boxed), other_values=len(others))
    return set((vkey(a), vkey(b)) for a, b in pairs) | (skip_pairs or set())


def part_int_shift(chk, run, SV, UV, name="int-shift"):
    boxed = SV + UV
    counts = [N(k) for k in range(64)]
    ncounts = set(counts)
    for k in (0, 1, 31, 32, 33, 62, 63):
        counts += [S(k), U(k), T(str(k))]
    bad = [N(0.5), N(-0.0), N(math.nan), N(-1.0), N(64.0), T("abc"), T(""), N(2.0 ** 53 + 2), S(-1), U(M.U64_MAX),
           N(math.inf), T("64"), T("-1")]
    pt = run.part(name)
    for op in SHIFTS:
        for x in boxed:
            for n in counts + bad:
                fn = (lambda: M.binop(op, x, n))
                pt.add(FI, op, (x, n), fn)
                if n in ncounts:
                    pt.add(("k",), op, (x,), fn, imm=int(n[1]))
        # a number or string on the left has no shift method and boxed integers have no reversed one
        for x in [N(1.0), N(-8.0), T("1")]:
            for n in [S(0), S(1), S(63), U(0), U(1), U(63)]:
                pt.add(FI, op, (x, n), (lambda: M.binop(op, x, n)))
    pt.close(boxed_values=len(boxed), counts=len(counts) + len(bad))


def part_imm(chk, run, vals, ks):
    """immediate opcodes: (op x K) with a literal -128..127"""
    pt = run.part("immediate-arith")
    for op in IMM_ARITH:
        for x in vals:
            for k in ks:
                pt.add(("k",), op, (x,), (lambda: M.binop(op, x, N(k))), imm=k)
    pt.close(values=len(vals), immediates=len(ks))


def part_variadic(chk, run, thorough):
    sub = [S(-1), S(7), S(M.S64_MIN), S(M.S64_MAX), U(2), U(M.U64_MAX), U(P(63)), N(3.0), N(-2.0), N(0.5),
           T("5"), T("-7")]
    if thorough:
        sub += [S(0), U(0), N(0.0), N(-1.0), N(float(P(53))), T("9223372036854775808")]
    pt = run.part("variadic-3")
    for op in ARITH + BITS2 + SHIFTS:
        for a, b, c in product(sub, repeat=3):
            pt.add(FI, op, (a, b, c), (lambda: M.varop(op, [a, b, c])))
    pt.close(subset=len(sub))
    pt = run.part("sum-product")
    for a, b, c in product(sub, repeat=3):
        pt.add(("f",), "sum", (a, b, c), (lambda: M.varop("+", [N(0.0), a, b, c])))
        pt.add(("f",), "product", (a, b, c), (lambda: M.varop("*", [N(1.0), a, b, c])))
    pt.close()
    if thorough:
        sub4 = sub[:12]
        pt = run.part("variadic-4")
        for op in ARITH + BITS2:
            for a, b, c, d in product(sub4, repeat=4):
                pt.add(("f",), op, (a, b, c, d), (lambda: M.varop(op, [a, b, c, d])))
        pt.close(subset=len(sub4))


def part_unary(chk, run, allv):
    pt = run.part("unary-nullary")
    for op in ARITH + BITS2 + SHIFTS:
        for x in allv:
            pt.add(FI, op, (x,), (lambda: M.varop(op, [x])))
    for x in allv:
        pt.add(FI, "bnot", (x,), (lambda: M.bnot(x)))
        pt.add(("f",), "inc", (x,), (lambda: M.binop("+", x, N(1.0))))
        pt.add(("f",), "dec", (x,), (lambda: M.binop("-", x, N(1.0))))
    for op in ARITH + BITS2 + SHIFTS:
        pt.add(FI, op, (), (lambda: M.varop(op, [])))
    pt.close(values=len(allv))


def num_alphabet(thorough):
    xs = [0.0, -0.0, 1.0, -1.0, 2.0, -2.0, 3.0, -3.0, 7.0, -7.0, 0.5, -0.5, 2.5, -2.5, 5.5, -5.5, 0.1, 1.0 / 3.0,
          1e-5, 123456789.125, math.pi, float(P(31)), float(P(32) + 1), float(P(53) - 1), float(P(53)),
          float(P(53) + 2), -float(P(53)), 2.0 ** 63, 2.0 ** 64, 1e300, -1e300, 1.7976931348623157e308,
          -1.7976931348623157e308, 5e-324, -5e-324, 2.2250738585072014e-308, 1e-300,
          math.inf, -math.inf, math.nan,
          0.3, -0.3, 1.5, -1.5, 10.0, -10.0, 1e15 + 0.5, 4503599627370495.5, -4503599627370495.5, 1e22, 1e23,
          2.2250738585072009e-308, 1e308, 360.0, 0.1 + 0.2, 9.5, -9.5, 100.0, 2.0 ** -1022 * 3, 2.0 ** 1023]
    if thorough:
        for k in (1, 2, 3, 8, 16, 24, 31, 32, 33, 52, 53, 54, 62, 63, 64, 100, 511, 512, 1000, 1023):
            p = 2.0 ** k
            xs += [p, -p, math.nextafter(p, 0.0), math.nextafter(p, math.inf), 1.0 / p, -1.0 / p]
        for k in (-1074, -1073, -1072, -1023, -1022, -1021, -538, -537, -53, -52):
            p = 2.0 ** k
            xs += [p, -p, math.nextafter(p, math.inf)]
        xs += [0.7, -0.7, 6.02214076e23, 1e-320, -1e-320, 1e-310, 3.0e-308, 1.1, -1.1, 1e16, 1e17, 12345.6789,
               -12345.6789, 255.0, 256.0, 65535.0, 65536.0, 0.999999999999999889, 1.0000000000000002, 4.35, 2.675,
               1e-7, 180.0, 1e9 + 7, 2147483647.5, -2147483648.5]
    return uniq([N(x) for x in xs])


def part_num_arith(chk, run, thorough):
    NA = num_alphabet(thorough)
    for op in ARITH:
        pt = run.part("num-arith:" + op)
        for a, b in product(NA, repeat=2):
            pt.add(FI, op, (a, b), (lambda: M.binop(op, a, b)))
        pt.close()
    chk.part("num-arith", values=len(NA))
    # immediates
    pt = run.part("num-arith-imm")
    for op in IMM_ARITH:
        for a in NA:
            for k in range(-128, 128):
                pt.add(("k",), op, (a,), (lambda: M.binop(op, a, N(k))), imm=k)
    pt.close()
    # chains of three on a small subset (left fold)
    sub = [N(x) for x in (0.0, -0.0, 1.0, -3.0, 7.0, 0.5, -2.5, 0.1, 1e300, float(P(53)), math.inf, math.nan)]
    pt = run.part("num-arith-3")
    for op in ARITH:
        for a, b, c in product(sub, repeat=3):
            pt.add(FI, op, (a, b, c), (lambda: M.varop(op, [a, b, c])))
    pt.close()


def part_num_bits(chk, run, thorough):
    xs = [0, 1, -1, 2, -2, 3, 7, -7, 31, 32, 33, 255, 65535, P(30), P(31) - 1, -P(31), P(31), -P(31) - 1, P(32) - 1,
          P(32), 0x55555555, 0xAAAAAAAA - P(32), 0xAAAAAAAA, 0x12345678, -0x12345678, P(53), P(31) - 2, -P(31) + 1]
    ks = range(0, 33) if thorough else (4, 8, 15, 16, 24, 30)
    for k in ks:
        xs += [P(k), P(k) - 1, -P(k), -P(k) - 1, P(k) + 1]
    X = uniq([N(x) for x in xs] + [N(0.5), N(-0.0), N(math.inf), N(-math.inf), N(math.nan), N(-1.5), N(2147483647.5),
                                   N(-2147483648.5), N(4294967295.5), N(1e300)])
    pt = run.part("num-bitwise")
    for op in BITS2:
        for a, b in product(X, repeat=2):
            pt.add(FI, op, (a, b), (lambda: M.binop(op, a, b)))
    pt.close(values=len(X))
    counts = [N(k) for k in range(32)]
    badc = [N(0.5), N(math.nan), N(math.inf), N(float(P(31))), N(float(P(32))), N(-float(P(31)) - 1), N(1e10)]
    pt = run.part("num-shift")
    for op in SHIFTS:
        for a in X:
            for n in counts:
                fn = (lambda: M.binop(op, a, n))
                pt.add(FI, op, (a, n), fn)
                pt.add(("k",), op, (a,), fn, imm=int(n[1]))
            for n in badc:
                pt.add(FI, op, (a, n), (lambda: M.binop(op, a, n)))
    pt.close(values=len(X))
    pt = run.part("num-bnot")
    for a in X:
        pt.add(FI, "bnot", (a,), (lambda: M.bnot(a)))
    pt.close()


def cmp_values(ks, patterns):
    SV = s_values(ks, patterns)
    UV = u_values(ks, patterns)
    NV = uniq([N(x) for x in n_int_values(ks) + N_SPECIAL +
               [2.0 ** 51 + 0.5, 2.0 ** 52 - 0.5, -(2.0 ** 51 + 0.5), 1e300, -1e300, 1.5, -1.5, 5e-324, -5e-324]])
    return SV, UV, NV


def part_compare(chk, run, po, ks_pairs, ks_chain, patterns):
    SV, UV, NV = cmp_values(ks_pairs, patterns)
    vals = SV + UV + NV
    pt = run.part("compare")
    for a, b in product(vals, repeat=2):
        pt.add_exp(("f",), "compare", (a, b), frozenset(["CMP%d" % po.compare(a, b)]))
    pt.close(values=len(vals), s64=len(SV), u64=len(UV), numbers=len(NV))
    SV, UV, NV = cmp_values(ks_chain, [])
    vals2 = SV + UV + NV
    pt = run.part("compare-chain-2")
    for op in CMPCHAIN:
        for a, b in product(vals2, repeat=2):
            pt.add(("f",), op, (a, b), (lambda: po.compare_chain(op, [a, b])))
    pt.close(values=len(vals2))
    sub = [S(-1), S(0), S(M.S64_MAX), S(M.S64_MIN), U(0), U(P(63)), U(M.U64_MAX), N(0.0), N(-1.0), N(2.0 ** 63),
           N(float(P(53))), N(0.5), N(math.inf), N(2.0 ** 64), N(-2.0 ** 63), S(P(53) + 1), U(P(53) + 1)]
    pt = run.part("compare-chain-3")
    for op in CMPCHAIN:
        for a, b, c in product(sub, repeat=3):
            pt.add(("f",), op, (a, b, c), (lambda: po.compare_chain(op, [a, b, c])))
    pt.close(subset=len(sub))
    # with strings: the compare method declines, the primitive (type) order decides, as documented
    pt = run.part("compare-strings")
    for a in [S(5), U(5), N(5.0), S(-1), U(M.U64_MAX)]:
        for t in [T("5"), T("7"), T("")]:
            for x, y in ((a, t), (t, a)):
                pt.add_exp(("f",), "compare", (x, y), frozenset(["CMP%d" % po.compare(x, y)]))
    pt.close()
    # predicates built on compare
    pt = run.part("predicates")
    z, one = N(0.0), N(1.0)
    for x in vals:
        pt.add_exp(("f",), "zero?", (x, ), frozenset([M.render(("b", po.compare(x, z) == 0))]))
        pt.add_exp(("f",), "pos?", (x, ), frozenset([M.render(("b", po.compare(x, z) == 1))]))
        pt.add_exp(("f",), "neg?", (x, ), frozenset([M.render(("b", po.compare(x, z) == -1))]))
        pt.add_exp(("f",), "one?", (x, ), frozenset([M.render(("b", po.compare(x, one) == 0))]))
        if x[0] in "su":
            pt.add_exp(("f",), "even?", (x, ), frozenset([M.render(("b", x[1] % 2 == 0))]))
            pt.add_exp(("f",), "odd?", (x, ), frozenset([M.render(("b", x[1] % 2 == 1))]))
    pt.close()


def part_prim(chk, run, po, ks, patterns, thorough):
    SV, UV, NV = cmp_values(ks, patterns)
    TV = [T("5"), T("")]
    vals = SV + UV + NV + TV
    pt = run.part("prim-compare-2")
    for op in PRIMS:
        for a, b in product(vals, repeat=2):
            if a[0] == "t" and b[0] == "t":
                continue
            pt.add(FI, op, (a, b), (lambda: po.chain(op, [a, b])))
    pt.close(values=len(vals))
    ks_imm = list(range(-128, 128)) if thorough else [-128, -2, -1, 0, 1, 2, 3, 127]
    pt = run.part("prim-compare-imm")
    for op in PRIMS:
        for a in vals:
            for k in ks_imm:
                pt.add(("k",), op, (a,), (lambda: po.chain(op, [a, N(k)])), imm=k)
    pt.close(immediates=len(ks_imm))
    sub = [S(-1), S(0), S(M.S64_MAX), S(M.S64_MIN), U(0), U(P(63)), U(M.U64_MAX), N(0.0), N(-0.0), N(-1.0),
           N(2.0 ** 63), N(math.nan), N(math.inf)]
    pt = run.part("prim-compare-3+minmax")
    for a, b, c in product(sub, repeat=3):
        for op in PRIMS:
            pt.add(FI, op, (a, b, c), (lambda: po.chain(op, [a, b, c])))
        pt.add(("f",), "min", (a, b, c), (lambda: po.extreme("<", [a, b, c])))
        pt.add(("f",), "max", (a, b, c), (lambda: po.extreme(">", [a, b, c])))
        pt.add(("f",), "min-of", (a, b, c), (lambda: po.extreme("<", [a, b, c])))
        pt.add(("f",), "max-of", (a, b, c), (lambda: po.extreme(">", [a, b, c])))
    pt.close(subset=len(sub))
    pt = run.part("minmax-2")
    for a, b in product(SV + UV + NV, repeat=2):
        pt.add(("f",), "min", (a, b), (lambda: po.extreme("<", [a, b])))
        pt.add(("f",), "max", (a, b), (lambda: po.extreme(">", [a, b])))
    pt.close()


def part_convert(chk, run, vals):
    extra = [N(x) for x in (float(P(53)) + 2, -(float(P(53)) + 2), math.nextafter(float(P(53)), 0.0), 1e19, -1e19,
                            2.0 ** 63, 2.0 ** 64, 0.5, -0.5, 1.5, 4503599627370495.5, 5e-324, -5e-324)]
    extra += [T(s) for s in ("9223372036854775806", "-9223372036854775807", "18446744073709551614",
                             "0x7fffffffffffffff", "-0x8000000000000000", "-0x8000000000000001",
                             "0x10000000000000000", "00000000000000000000000000018446744073709551615",
                             "1__0", "1_", "0x_1", "36rz", "37rz", "1r0", "8r777", "8r778", "+", "+-1", "1 ", "0b1",
                             "9" * 30, "1" + "0" * 19, "0X10", "0xFFFFFFFFFFFFFFFF", "0xg", "0" * 151, "0" * 150,
                             "2r" + "1" * 64, "2r" + "1" * 65, "-2r1" + "0" * 63, "-2r1" + "0" * 62 + "1",
                             "36r3w5e11264sgsf", "36r3w5e11264sgsg", "1e2", "1.0", "0x1p3", "1r", "99r1", "00r1")]
    vals = uniq(vals + extra)
    pt = run.part("convert")
    for v in vals:
        pt.add(("f",), "int/s64", (v,), (lambda: M.construct("s", v)))
        pt.add(("f",), "int/u64", (v,), (lambda: M.construct("u", v)))
        pt.add(("f",), "int/to-number", (v,), (lambda: M.to_number(v)))
    pt.close(values=len(vals))


def method_model(m, args):
    """direct method call ((get self :m) self x ...) as laid out in the inttypes.c method tables"""
    self_ = args[0]
    Tt = self_[0]
    op = METHODS[m]

    def conv(v):
        return M.unwrap(Tt, v)
    if m in INVERTED:
        if len(args) != 2:
            raise M.Err("arity")
        args = [args[1], args[0]]
    else:
        if len(args) < 2:
            raise M.Err("arity")
        if len(args) > 2 and m not in VARIADIC_METHODS[Tt]:
            raise M.Err("arity")
    # conversions and operations in argument order (a conversion error after an undefined shift
    # stays undefined)
    acc = conv(args[0])
    for a in args[1:]:
        y = conv(a)
        if m == "mod" and Tt == "u" and y == 0:
            # convention (raw method API, not reachable through the `mod` function, which folds pairwise):
            # the variadic u64 :mod method returns its accumulator at the first zero operand
            return (Tt, acc)
        acc = M.int_op(op, Tt, acc, y)[1]
    return (Tt, acc)


def part_methods(chk, run):
    selfs = [S(-1), S(7), S(M.S64_MIN), S(M.S64_MAX), U(2), U(M.U64_MAX), U(P(63))]
    others = selfs + [N(3.0), N(-2.0), N(0.0), N(0.5), N(-1.0), T("5"), T("-7"), T("x")]
    pt = run.part("methods")
    for m in METHODS:
        for a in selfs:
            for b in others:
                pt.add(("m",), m, (a, b), (lambda: method_model(m, [a, b])))
            for b, c in product(others[:10], repeat=2):
                pt.add(("m",), m, (a, b, c), (lambda: method_model(m, [a, b, c])))
    pt.close()


# ------------------------------------------------------------------ main

def calibrate_su():
    """sign of janet's primitive order between an int/s64 and an int/u64 (address of the two type
    descriptors: implementation-defined, fixed per build). Only consistency is checked."""
    res = run_batch("fast", DRIVER, [item("f", "cmp", (S(0), U(0))), item("f", "cmp", (U(0), S(0)))], chunk=10)
    a, b = res[0][1], res[1][1]
    m = {"nbff0000000000000": -1, "n3ff0000000000000": 1}
    if res[0][0] != "OK" or a not in m or b not in m or m[a] != -m[b]:
        raise HarnessError("cannot calibrate the s64/u64 primitive order: %r" % (res,))
    return m[a]


def main():
    chk = Check("C14", description=__doc__)
    thorough = chk.tier == "thorough"
    chk.rule("one case = (operator, call route in {f: first-class function, i: inlined opcode, k: immediate opcode, "
             "m: direct method}, ordered operand tuple of tagged values {number by IEEE bits, int/s64, int/u64, numeric "
             "string}); every case of the stated finite products is executed on the real interpreter and its exact "
             "result (64-bit decimal / double bit pattern / boolean / raised) compared with the Python big-int/IEEE "
             "model. Cases where C leaves the result undefined (shift counts outside 0..63 / 0..31, bnot of a number "
             "outside int32) are excluded and counted as skipped_undefined. distinct = distinct (part, outcome).")
    chk.assume("Python int/float/Fraction arithmetic is the reference (IEEE-754 binary64, round-to-nearest-even)")
    chk.assume("operands are built without text->double conversion (verif/bits-to-double); boxed integers are built "
               "from decimal strings by int/s64 / int/u64 (that conversion is itself checked in part 'convert')")
    chk.assume("vjanet `fast` = gcc -O2 build of /repo's working tree (x86-64, no FMA contraction)")

    KS_Q = [8, 16, 24, 31, 32, 33, 48, 52, 53, 54, 62, 63]
    PATS_Q = PATTERNS + splitmix(4)
    NKS_Q = [31, 32, 52, 53, 54, 63, 64]
    if thorough:
        ks_cmp = list(range(0, 65))
        ks_chain = [1, 8, 31, 32, 33, 52, 53, 54, 62, 63, 64]
        ks_prim = [1, 8, 16, 31, 32, 33, 52, 53, 54, 55, 62, 63, 64]
        imm_ks = list(range(-128, 128))
    else:
        ks_cmp = list(range(0, 65, 2)) + [1, 31, 33, 53, 55, 63]
        ks_chain = [31, 53, 63, 64]
        ks_prim = [31, 32, 53, 63, 64]
        imm_ks = [-128, -127, -8, -7, -3, -2, -1, 0, 1, 2, 3, 7, 8, 63, 64, 126, 127]

    def n_values(ks):
        return uniq([N(x) for x in n_int_values(ks) + N_SPECIAL + [63.0, 64.0, 1e300, -1e300, 1.5, 5e-324]])

    SV, UV, NV = s_values(KS_Q, PATS_Q), u_values(KS_Q, PATS_Q), n_values(NKS_Q)
    TV = [T(t) for t in T_CORE]
    allv = SV + UV + NV + TV

    vjanet("fast")
    po = M.PrimOrder(calibrate_su())
    chk.part("calibration", s64_vs_u64_primitive_order=po.su)
    run = Runner(chk)
    only = chk.args.only
    done = []

    def stage(name, fn, frac=0.8):
        if only is not None and only != name:
            return None
        if chk.out_of_time(frac):
            chk.cap("part %s not run: out of time" % name)
            return None
        r = fn()
        done.append(name)
        return r

    stage("convert", lambda: part_convert(chk, run, allv))
    stage("int-shift", lambda: part_int_shift(chk, run, SV, UV))
    stage("imm", lambda: part_imm(chk, run, allv, imm_ks))
    stage("unary", lambda: part_unary(chk, run, allv))
    stage("variadic", lambda: part_variadic(chk, run, thorough))
    stage("methods", lambda: part_methods(chk, run))
    stage("num-arith", lambda: part_num_arith(chk, run, thorough))
    stage("num-bits", lambda: part_num_bits(chk, run, thorough))
    stage("prim", lambda: part_prim(chk, run, po, ks_prim, PATTERNS, thorough))
    stage("compare", lambda: part_compare(chk, run, po, ks_cmp, ks_chain, PATS_Q))
    covered = stage("int-binary", lambda: part_int_binary(chk, run, "int-binary", SV + UV, NV + TV))
    bound = "bound 1: |s64|=%d |u64|=%d |number|=%d |string|=%d, powers of two %s" % (
        len(SV), len(UV), len(NV), len(TV), KS_Q)
    if thorough:
        # bound 2: every power of two 2^1..2^63 and neighbours, 32 fixed bit patterns, more numbers/strings
        KS_T = list(range(1, 64))
        PATS_T = PATTERNS + splitmix(28)
        SV2, UV2 = s_values(KS_T, PATS_T), u_values(KS_T, PATS_T)
        NV2 = n_values([8, 16, 24, 31, 32, 33, 51, 52, 53, 54, 62, 63, 64])
        TV2 = TV + [T(t) for t in ("9223372036854775806", "-9223372036854775807", "18446744073709551614",
                                   "0x7fffffffffffffff", "-0x8000000000000000", "4294967296", "-2147483649",
                                   "9007199254740992", "-9007199254740993", "2r" + "1" * 64, "1_0")]
        r = stage("int-binary-2", lambda: part_int_binary(chk, run, "int-binary-2", SV2 + UV2, NV2 + TV2,
                                                          skip_pairs=covered), frac=0.5)
        if r is not None:
            bound = "bound 2: |s64|=%d |u64|=%d |number|=%d |string|=%d, every power of two 2^1..2^63 +-1" % (
                len(SV2), len(UV2), len(NV2), len(TV2))
        stage("int-shift-2", lambda: part_int_shift(chk, run, [v for v in SV2 if v not in set(SV)],
                                                    [v for v in UV2 if v not in set(UV)], name="int-shift-2"), frac=0.8)
    chk.cov["bound_completed"] = "parts %s; int-binary %s" % (",".join(done), bound)
    chk.finish()


if __name__ == "__main__":
    harness_guard(main)
